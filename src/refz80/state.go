// Package refz80 is the reference model of the checks: an independent Z80
// interpreter, deliberately boring and structurally unlike the code under
// check (algorithmic decode by bit fields into an Inst, then one generic
// executor per instruction kind; first-principles flag arithmetic).
//
// It never imports package z80.
package refz80

// State is the complete architectural state the properties talk about.
type State struct {
	A, F, B, C, D, E, H, L         uint8
	A2, F2, B2, C2, D2, E2, H2, L2 uint8 // alternate set
	IX, IY, SP, PC                 uint16
	I, R                           uint8
	IFF1, IFF2                     bool
	IM                             int
	Halt                           bool
}

// Bus is everything the model can touch outside State.
type Bus interface {
	Read(addr uint16) uint8
	Write(addr uint16, v uint8)
	In(port uint8) uint8
	Out(port uint8, v uint8)
}

// Flag bit masks.
const (
	FC  = 0x01
	FN  = 0x02
	FPV = 0x04
	F3  = 0x08
	FH  = 0x10
	F5  = 0x20
	FZ  = 0x40
	FS  = 0x80
)

// Kind classifies a decoded instruction.
type Kind uint8

// Instruction kinds.
const (
	KInvalid Kind = iota // not in the set this project implements
	KNop
	KLd8    // LD dst8, src8
	KLd16   // LD rp, nn / LD rp,(nn) / LD (nn),rp / LD SP,HL
	KPush   // PUSH rp2
	KPop    // POP rp2
	KEx     // Sub: 0 EX AF,AF' 1 EXX 2 EX DE,HL 3 EX (SP),HL/IX/IY
	KAlu8   // Sub = 0..7 ADD ADC SUB SBC AND XOR OR CP ; Src operand
	KInc8   // Dst operand
	KDec8   // Dst operand
	KAccum  // Sub: 0 RLCA 1 RRCA 2 RLA 3 RRA 4 DAA 5 CPL 6 SCF 7 CCF
	KNeg    //
	KRot    // Sub = 0..7 RLC RRC RL RR SLA SRA SLL SRL ; Dst operand
	KBit    // Sub = bit ; Src operand
	KRes    // Sub = bit ; Dst operand
	KSet    // Sub = bit ; Dst operand
	KRld    //
	KRrd    //
	KAdd16  // Dst16 += Src16
	KAdc16  //
	KSbc16  //
	KInc16  // Dst16
	KDec16  // Dst16
	KJp     // CC (8 = always), NN
	KJr     // CC (8 = always), D
	KDjnz   //
	KJpReg  // JP (HL)/(IX)/(IY): Src16
	KCall   // CC, NN
	KRet    // CC
	KRetn   //
	KReti   //
	KRst    // NN = target
	KHalt   //
	KDi     //
	KEi     //
	KIm     // Sub = mode
	KInAn   // IN A,(n)
	KOutnA  // OUT (n),A
	KInC    // IN r,(C): Dst
	KOutC   // OUT (C),r: Src
	KLdAI   // Sub: 0 LD I,A 1 LD R,A 2 LD A,I 3 LD A,R
	KBlkLd  // Sub bit0: 1 = decrement ; bit1: 1 = repeat
	KBlkCp  //
	KBlkIn  //
	KBlkOut //
)

// Loc is an 8-bit operand location.
type Loc uint8

// 8-bit operand locations.
const (
	LNone Loc = iota
	LB
	LC
	LD
	LE
	LH
	LL
	LA
	LIXH
	LIXL
	LIYH
	LIYL
	LMemHL
	LMemIXd
	LMemIYd
	LMemBC
	LMemDE
	LMemNN
	LImm
)

// RP is a 16-bit operand.
type RP uint8

// 16-bit operands.
const (
	RNone RP = iota
	RBC
	RDE
	RHL
	RSP
	RAF
	RIX
	RIY
	RImm   // nn
	RMemNN // (nn)
)

// Inst is one decoded instruction.
type Inst struct {
	Kind   Kind
	Sub    uint8
	Dst    Loc
	Src    Loc
	Dst16  RP
	Src16  RP
	CC     uint8 // 0..7 = NZ Z NC C PO PE P M ; 8 = unconditional
	D      uint8 // displacement / relative offset
	N      uint8
	NN     uint16
	Len    int   // bytes consumed by the decoder (also for invalid encodings)
	M1     int   // opcode fetches (this project's count)
	M1Alt  int   // other acceptable count (DDCB/FDCB: silicon counts 2), else = M1
	Prefix uint8 // 0, 0xDD, 0xFD
	Table  uint8 // 0 main, 1 CB, 2 ED, 3 DDCB/FDCB
	Opcode uint8 // opcode byte within its table
	Bytes  [4]uint8
}

// Outcome is the policy data that accompanies one reference Step (DESIGN §6).
type Outcome struct {
	Inst Inst
	// FCompare has a 1 for every bit of F that is compared.
	FCompare uint8
	// FAlt: a bit of the observed F is acceptable if it equals the same bit of
	// the model's F or of FAlt (equal to the model's F where the Z80 is unique).
	FAlt uint8
	// IFF1Alt is the second acceptable IFF1 value (RETI), = IFF1 otherwise.
	IFF1Alt bool
	// RAlt is the second acceptable R value, = R otherwise.
	RAlt uint8
	// Notifications the instruction must deliver.
	RETN, RETI int
	// Repeat is true for a block instruction Step that left PC on the instruction.
	Repeat bool
	// Taken is true when a conditional transfer was taken.
	Taken bool
}

func parity(v uint8) bool {
	p := true
	for i := 0; i < 8; i++ {
		if v&(1<<uint(i)) != 0 {
			p = !p
		}
	}
	return p // true = even
}

func b2f(c bool, m uint8) uint8 {
	if c {
		return m
	}
	return 0
}

func szFlags(v uint8) uint8 {
	return b2f(v&0x80 != 0, FS) | b2f(v == 0, FZ)
}

func xyFlags(v uint8) uint8 { return v & (F5 | F3) }
