package refz80

// Decode reads one instruction through fetch (called once per byte, in
// address order) and returns its decoded form. The scheme is the classic
// x/y/z/p/q bit-field decode; DD/FD are a *mode* that substitutes
// HL→IX/IY, H/L→IXH/IXL (IYH/IYL), (HL)→(IX+d)/(IY+d).
func Decode(fetch func() uint8) Inst {
	var in Inst
	f := &fetcher{fn: fetch, in: &in}
	decodeInto(&in, f)
	return in
}

// fetcher delivers instruction bytes either from a callback or from a bus at *pc.
type fetcher struct {
	fn  func() uint8
	bus Bus
	pc  *uint16
	in  *Inst
	n   int
}

func (f *fetcher) next() uint8 {
	var b uint8
	if f.fn != nil {
		b = f.fn()
	} else {
		b = f.bus.Read(*f.pc)
		*f.pc++
	}
	if f.n < 4 {
		f.in.Bytes[f.n] = b
	}
	f.n++
	return b
}

func decodeInto(inp *Inst, f *fetcher) {
	in := Inst{}
	op := f.next()
	in.M1 = 1
	switch op {
	case 0xCB:
		in.Table = 1
		in.M1 = 2
		op = f.next()
		in.Opcode = op
		decodeCB(&in, op, LNone)
	case 0xED:
		in.Table = 2
		in.M1 = 2
		op = f.next()
		in.Opcode = op
		decodeED(&in, op, f)
	case 0xDD, 0xFD:
		in.Prefix = op
		in.M1 = 2
		op = f.next()
		in.Opcode = op
		if op == 0xCB {
			in.Table = 3
			in.M1 = 3
			in.D = f.next()
			op = f.next()
			in.Opcode = op
			mem := LMemIXd
			if in.Prefix == 0xFD {
				mem = LMemIYd
			}
			if op&7 == 6 { // only the (IX+d) forms are implemented by this project
				decodeCB(&in, op, mem)
			}
		} else if ddSupported(op) {
			decodeMain(&in, op, f)
		}
		// this project treats every other DD/FD xx pair as a 2-byte invalid code
	default:
		in.Opcode = op
		decodeMain(&in, op, f)
	}
	in.Len = f.n
	in.M1Alt = in.M1
	if in.Table == 3 {
		in.M1Alt = 2
	}
	in.Bytes = inp.Bytes
	*inp = in
}

// ddSupported lists the second bytes after DD/FD that this project implements
// (documented IX/IY instructions, the undocumented IXH/IXL forms and the
// mirrored register forms in 0x40..0xBF).
func ddSupported(op uint8) bool {
	switch {
	case op == 0x76:
		return false
	case op >= 0x40 && op <= 0xBF:
		return true
	}
	switch op {
	case 0x09, 0x19, 0x29, 0x39, 0x21, 0x22, 0x23, 0x24, 0x25, 0x26, 0x2A, 0x2B, 0x2C, 0x2D, 0x2E,
		0x34, 0x35, 0x36, 0xE1, 0xE3, 0xE5, 0xE9, 0xF9:
		return true
	}
	return false
}

var r8 = [8]Loc{LB, LC, LD, LE, LH, LL, LMemHL, LA}
var rp = [4]RP{RBC, RDE, RHL, RSP}
var rp2 = [4]RP{RBC, RDE, RHL, RAF}

// reg8 maps a 3-bit register field under the current prefix. other is the
// second operand of the same instruction: if either operand is the memory
// operand, H and L keep their plain meaning.
func reg8(in *Inst, f uint8, otherIsMem bool) Loc {
	l := r8[f]
	if in.Prefix == 0 {
		return l
	}
	ix := in.Prefix == 0xDD
	switch l {
	case LMemHL:
		if ix {
			return LMemIXd
		}
		return LMemIYd
	case LH:
		if otherIsMem {
			return LH
		}
		if ix {
			return LIXH
		}
		return LIYH
	case LL:
		if otherIsMem {
			return LL
		}
		if ix {
			return LIXL
		}
		return LIYL
	}
	return l
}

func reg16(in *Inst, r RP) RP {
	if r == RHL {
		switch in.Prefix {
		case 0xDD:
			return RIX
		case 0xFD:
			return RIY
		}
	}
	return r
}

func isMem(l Loc) bool { return l == LMemHL || l == LMemIXd || l == LMemIYd }

func decodeMain(in *Inst, op uint8, f *fetcher) {
	x, y, z := op>>6, (op>>3)&7, op&7
	p, q := y>>1, y&1
	imm16 := func() uint16 {
		lo := f.next()
		hi := f.next()
		return uint16(hi)<<8 | uint16(lo)
	}
	disp := func(l Loc) {
		if l == LMemIXd || l == LMemIYd {
			in.D = f.next()
		}
	}
	in.CC = 8
	switch x {
	case 0:
		switch z {
		case 0:
			switch {
			case y == 0:
				in.Kind = KNop
			case y == 1:
				in.Kind, in.Sub = KEx, 0
			case y == 2:
				in.Kind = KDjnz
				in.D = f.next()
			case y == 3:
				in.Kind = KJr
				in.D = f.next()
			default:
				in.Kind = KJr
				in.CC = y - 4
				in.D = f.next()
			}
		case 1:
			if q == 0 {
				in.Kind, in.Dst16, in.Src16 = KLd16, reg16(in, rp[p]), RImm
				in.NN = imm16()
			} else {
				in.Kind, in.Dst16, in.Src16 = KAdd16, reg16(in, RHL), reg16(in, rp[p])
			}
		case 2:
			switch p {
			case 0:
				in.Kind = KLd8
				if q == 0 {
					in.Dst, in.Src = LMemBC, LA
				} else {
					in.Dst, in.Src = LA, LMemBC
				}
			case 1:
				in.Kind = KLd8
				if q == 0 {
					in.Dst, in.Src = LMemDE, LA
				} else {
					in.Dst, in.Src = LA, LMemDE
				}
			case 2:
				in.Kind = KLd16
				in.NN = imm16()
				if q == 0 {
					in.Dst16, in.Src16 = RMemNN, reg16(in, RHL)
				} else {
					in.Dst16, in.Src16 = reg16(in, RHL), RMemNN
				}
			case 3:
				in.Kind = KLd8
				in.NN = imm16()
				if q == 0 {
					in.Dst, in.Src = LMemNN, LA
				} else {
					in.Dst, in.Src = LA, LMemNN
				}
			}
		case 3:
			if q == 0 {
				in.Kind = KInc16
			} else {
				in.Kind = KDec16
			}
			in.Dst16 = reg16(in, rp[p])
		case 4, 5:
			if z == 4 {
				in.Kind = KInc8
			} else {
				in.Kind = KDec8
			}
			in.Dst = reg8(in, y, false)
			disp(in.Dst)
		case 6:
			in.Kind, in.Src = KLd8, LImm
			in.Dst = reg8(in, y, false)
			disp(in.Dst)
			in.N = f.next()
		case 7:
			in.Kind, in.Sub = KAccum, y
		}
	case 1:
		if op == 0x76 {
			in.Kind = KHalt
			return
		}
		in.Kind = KLd8
		mem := y == 6 || z == 6
		in.Dst = reg8(in, y, mem)
		in.Src = reg8(in, z, mem)
		disp(in.Dst)
		disp(in.Src)
	case 2:
		in.Kind, in.Sub = KAlu8, y
		in.Src = reg8(in, z, false)
		disp(in.Src)
	case 3:
		switch z {
		case 0:
			in.Kind, in.CC = KRet, y
		case 1:
			if q == 0 {
				in.Kind, in.Dst16 = KPop, reg16(in, rp2[p])
			} else {
				switch p {
				case 0:
					in.Kind = KRet
				case 1:
					in.Kind, in.Sub = KEx, 1
				case 2:
					in.Kind, in.Src16 = KJpReg, reg16(in, RHL)
				case 3:
					in.Kind, in.Dst16, in.Src16 = KLd16, RSP, reg16(in, RHL)
				}
			}
		case 2:
			in.Kind, in.CC = KJp, y
			in.NN = imm16()
		case 3:
			switch y {
			case 0:
				in.Kind = KJp
				in.NN = imm16()
			case 1:
				// CB prefix: handled by the caller
			case 2:
				in.Kind = KOutnA
				in.N = f.next()
			case 3:
				in.Kind = KInAn
				in.N = f.next()
			case 4:
				in.Kind, in.Sub, in.Dst16 = KEx, 3, reg16(in, RHL)
			case 5:
				in.Kind, in.Sub = KEx, 2
			case 6:
				in.Kind = KDi
			case 7:
				in.Kind = KEi
			}
		case 4:
			in.Kind, in.CC = KCall, y
			in.NN = imm16()
		case 5:
			if q == 0 {
				in.Kind, in.Src16 = KPush, reg16(in, rp2[p])
			} else if p == 0 {
				in.Kind = KCall
				in.NN = imm16()
			}
			// p = 1,2,3: DD, ED, FD prefixes: handled by the caller
		case 6:
			in.Kind, in.Sub, in.Src = KAlu8, y, LImm
			in.N = f.next()
		case 7:
			in.Kind = KRst
			in.NN = uint16(y) * 8
		}
	}
}

func decodeCB(in *Inst, op uint8, mem Loc) {
	x, y, z := op>>6, (op>>3)&7, op&7
	l := r8[z]
	if mem != LNone {
		l = mem
	}
	in.CC = 8
	switch x {
	case 0:
		in.Kind, in.Sub, in.Dst = KRot, y, l
	case 1:
		in.Kind, in.Sub, in.Src = KBit, y, l
	case 2:
		in.Kind, in.Sub, in.Dst = KRes, y, l
	case 3:
		in.Kind, in.Sub, in.Dst = KSet, y, l
	}
}

func decodeED(in *Inst, op uint8, f *fetcher) {
	x, y, z := op>>6, (op>>3)&7, op&7
	p, q := y>>1, y&1
	in.CC = 8
	imm16 := func() uint16 {
		lo := f.next()
		hi := f.next()
		return uint16(hi)<<8 | uint16(lo)
	}
	switch x {
	case 1:
		switch z {
		case 0:
			if y != 6 {
				in.Kind, in.Dst = KInC, r8[y]
			}
		case 1:
			if y != 6 {
				in.Kind, in.Src = KOutC, r8[y]
			}
		case 2:
			if q == 0 {
				in.Kind = KSbc16
			} else {
				in.Kind = KAdc16
			}
			in.Dst16, in.Src16 = RHL, rp[p]
		case 3:
			in.Kind = KLd16
			in.NN = imm16()
			if q == 0 {
				in.Dst16, in.Src16 = RMemNN, rp[p]
			} else {
				in.Dst16, in.Src16 = rp[p], RMemNN
			}
		case 4:
			if y == 0 {
				in.Kind = KNeg
			}
		case 5:
			switch y {
			case 0:
				in.Kind = KRetn
			case 1:
				in.Kind = KReti
			}
		case 6:
			switch y {
			case 0:
				in.Kind, in.Sub = KIm, 0
			case 2:
				in.Kind, in.Sub = KIm, 1
			case 3:
				in.Kind, in.Sub = KIm, 2
			}
		case 7:
			switch y {
			case 0, 1, 2, 3:
				in.Kind, in.Sub = KLdAI, y
			case 4:
				in.Kind = KRrd
			case 5:
				in.Kind = KRld
			}
		}
	case 2:
		if z <= 3 && y >= 4 {
			in.Kind = [4]Kind{KBlkLd, KBlkCp, KBlkIn, KBlkOut}[z]
			in.Sub = (y - 4) // bit0: decrement, bit1: repeat
		}
	}
}
