package refz80

// Step executes one instruction of the model on s over bus and returns the
// policy data. Interrupt acceptance is not part of this function (C06 has its
// own model).
func Step(s *State, bus Bus) Outcome {
	var m Model
	var out Outcome
	m.Step(s, bus, &out)
	return out
}

// Model holds the scratch objects of the interpreter so that a caller running
// billions of Steps does not allocate.
type Model struct {
	f fetcher
	x exec
}

// Step is the allocation-free form of the package-level Step.
func (m *Model) Step(s *State, bus Bus, out *Outcome) {
	pc0 := s.PC
	*out = Outcome{FCompare: 0xFF}
	in := &out.Inst
	m.f = fetcher{bus: bus, pc: &s.PC, in: in}
	decodeInto(in, &m.f)
	// refresh: one per opcode fetch, bit 7 kept
	r0 := s.R
	s.R = r0&0x80 | (r0+uint8(in.M1))&0x7F
	m.x = exec{s: s, bus: bus, in: in, out: out, pc0: pc0}
	x := &m.x
	x.run()
	if !x.faltSet {
		out.FAlt = s.F
	}
	if !x.iffAltSet {
		out.IFF1Alt = s.IFF1
	}
	// alternative refresh count (DDCB/FDCB)
	out.RAlt = s.R
	if in.M1Alt != in.M1 {
		out.RAlt = r0&0x80 | (r0+uint8(in.M1Alt))&0x7F
	}
}

type exec struct {
	s         *State
	bus       Bus
	in        *Inst
	out       *Outcome
	pc0       uint16
	faltSet   bool
	iffAltSet bool
}

func (x *exec) addr(l Loc) uint16 {
	s := x.s
	switch l {
	case LMemHL:
		return uint16(s.H)<<8 | uint16(s.L)
	case LMemIXd:
		return s.IX + uint16(int16(int8(x.in.D)))
	case LMemIYd:
		return s.IY + uint16(int16(int8(x.in.D)))
	case LMemBC:
		return uint16(s.B)<<8 | uint16(s.C)
	case LMemDE:
		return uint16(s.D)<<8 | uint16(s.E)
	case LMemNN:
		return x.in.NN
	}
	panic("refz80: not a memory operand")
}

func (x *exec) get8(l Loc) uint8 {
	s := x.s
	switch l {
	case LB:
		return s.B
	case LC:
		return s.C
	case LD:
		return s.D
	case LE:
		return s.E
	case LH:
		return s.H
	case LL:
		return s.L
	case LA:
		return s.A
	case LIXH:
		return uint8(s.IX >> 8)
	case LIXL:
		return uint8(s.IX)
	case LIYH:
		return uint8(s.IY >> 8)
	case LIYL:
		return uint8(s.IY)
	case LImm:
		return x.in.N
	}
	return x.bus.Read(x.addr(l))
}

func (x *exec) set8(l Loc, v uint8) {
	s := x.s
	switch l {
	case LB:
		s.B = v
	case LC:
		s.C = v
	case LD:
		s.D = v
	case LE:
		s.E = v
	case LH:
		s.H = v
	case LL:
		s.L = v
	case LA:
		s.A = v
	case LIXH:
		s.IX = s.IX&0x00FF | uint16(v)<<8
	case LIXL:
		s.IX = s.IX&0xFF00 | uint16(v)
	case LIYH:
		s.IY = s.IY&0x00FF | uint16(v)<<8
	case LIYL:
		s.IY = s.IY&0xFF00 | uint16(v)
	default:
		x.bus.Write(x.addr(l), v)
	}
}

func (x *exec) get16(r RP) uint16 {
	s := x.s
	switch r {
	case RBC:
		return uint16(s.B)<<8 | uint16(s.C)
	case RDE:
		return uint16(s.D)<<8 | uint16(s.E)
	case RHL:
		return uint16(s.H)<<8 | uint16(s.L)
	case RSP:
		return s.SP
	case RAF:
		return uint16(s.A)<<8 | uint16(s.F)
	case RIX:
		return s.IX
	case RIY:
		return s.IY
	case RImm:
		return x.in.NN
	case RMemNN:
		lo := x.bus.Read(x.in.NN)
		hi := x.bus.Read(x.in.NN + 1)
		return uint16(hi)<<8 | uint16(lo)
	}
	panic("refz80: bad 16-bit operand")
}

func (x *exec) set16(r RP, v uint16) {
	s := x.s
	hi, lo := uint8(v>>8), uint8(v)
	switch r {
	case RBC:
		s.B, s.C = hi, lo
	case RDE:
		s.D, s.E = hi, lo
	case RHL:
		s.H, s.L = hi, lo
	case RSP:
		s.SP = v
	case RAF:
		s.A, s.F = hi, lo
	case RIX:
		s.IX = v
	case RIY:
		s.IY = v
	case RMemNN:
		x.bus.Write(x.in.NN, lo)
		x.bus.Write(x.in.NN+1, hi)
	default:
		panic("refz80: bad 16-bit destination")
	}
}

func (x *exec) push(v uint16) {
	s := x.s
	s.SP--
	x.bus.Write(s.SP, uint8(v>>8))
	s.SP--
	x.bus.Write(s.SP, uint8(v))
}

func (x *exec) pop() uint16 {
	s := x.s
	lo := x.bus.Read(s.SP)
	s.SP++
	hi := x.bus.Read(s.SP)
	s.SP++
	return uint16(hi)<<8 | uint16(lo)
}

// Cond evaluates condition code cc (0..7 = NZ Z NC C PO PE P M, 8 = always) on f.
func Cond(cc uint8, f uint8) bool {
	switch cc {
	case 0:
		return f&FZ == 0
	case 1:
		return f&FZ != 0
	case 2:
		return f&FC == 0
	case 3:
		return f&FC != 0
	case 4:
		return f&FPV == 0
	case 5:
		return f&FPV != 0
	case 6:
		return f&FS == 0
	case 7:
		return f&FS != 0
	}
	return true
}

// Add8 returns a+b+cin and the complete flag byte (first principles).
func Add8(a, b, cin uint8) (uint8, uint8) {
	sum := int(a) + int(b) + int(cin)
	res := uint8(sum)
	ssum := int(int8(a)) + int(int8(b)) + int(cin)
	f := szFlags(res) | xyFlags(res)
	f |= b2f(int(a&15)+int(b&15)+int(cin) > 15, FH)
	f |= b2f(ssum > 127 || ssum < -128, FPV)
	f |= b2f(sum > 255, FC)
	return res, f
}

// Sub8 returns a-b-cin and the complete flag byte (first principles).
func Sub8(a, b, cin uint8) (uint8, uint8) {
	diff := int(a) - int(b) - int(cin)
	res := uint8(diff)
	sdiff := int(int8(a)) - int(int8(b)) - int(cin)
	f := szFlags(res) | xyFlags(res) | FN
	f |= b2f(int(a&15)-int(b&15)-int(cin) < 0, FH)
	f |= b2f(sdiff > 127 || sdiff < -128, FPV)
	f |= b2f(diff < 0, FC)
	return res, f
}

// Alu8 performs ALU operation op (0..7 = ADD ADC SUB SBC AND XOR OR CP) and
// returns the new A and F.
func Alu8(op uint8, a, b, f uint8) (uint8, uint8) {
	c := f & FC
	switch op {
	case 0:
		return Add8(a, b, 0)
	case 1:
		return Add8(a, b, c)
	case 2:
		return Sub8(a, b, 0)
	case 3:
		return Sub8(a, b, c)
	case 4:
		r := a & b
		return r, szFlags(r) | xyFlags(r) | FH | b2f(parity(r), FPV)
	case 5:
		r := a ^ b
		return r, szFlags(r) | xyFlags(r) | b2f(parity(r), FPV)
	case 6:
		r := a | b
		return r, szFlags(r) | xyFlags(r) | b2f(parity(r), FPV)
	default:
		_, fl := Sub8(a, b, 0)
		fl = fl&^(F5|F3) | xyFlags(b) // bits 5,3 from the operand
		return a, fl
	}
}

// Inc8 returns v+1 and the new F (C preserved).
func Inc8(v, f uint8) (uint8, uint8) {
	r := v + 1
	nf := f&FC | szFlags(r) | xyFlags(r) | b2f(v&15 == 15, FH) | b2f(v == 0x7F, FPV)
	return r, nf
}

// Dec8 returns v-1 and the new F (C preserved).
func Dec8(v, f uint8) (uint8, uint8) {
	r := v - 1
	nf := f&FC | szFlags(r) | xyFlags(r) | FN | b2f(v&15 == 0, FH) | b2f(v == 0x80, FPV)
	return r, nf
}

// Rot performs CB rotate/shift op (0..7 = RLC RRC RL RR SLA SRA SLL SRL).
func Rot(op uint8, v, f uint8) (uint8, uint8) {
	cin := f & FC
	var r, cout uint8
	switch op {
	case 0:
		cout = v >> 7
		r = v<<1 | cout
	case 1:
		cout = v & 1
		r = v>>1 | cout<<7
	case 2:
		cout = v >> 7
		r = v<<1 | cin
	case 3:
		cout = v & 1
		r = v>>1 | cin<<7
	case 4:
		cout = v >> 7
		r = v << 1
	case 5:
		cout = v & 1
		r = v>>1 | v&0x80
	case 6:
		cout = v >> 7
		r = v<<1 | 1
	case 7:
		cout = v & 1
		r = v >> 1
	}
	return r, szFlags(r) | xyFlags(r) | b2f(parity(r), FPV) | cout
}

// Accum performs the accumulator group (0..7 = RLCA RRCA RLA RRA DAA CPL SCF
// CCF); compare tells which F bits are defined.
func Accum(op uint8, a, f uint8) (na, nf, compare uint8) {
	compare = 0xFF
	keep := f & (FS | FZ | FPV)
	switch op {
	case 0:
		na = a<<1 | a>>7
		nf = keep | xyFlags(na) | a>>7
	case 1:
		na = a>>1 | a<<7
		nf = keep | xyFlags(na) | a&1
	case 2:
		na = a<<1 | f&FC
		nf = keep | xyFlags(na) | a>>7
	case 3:
		na = a>>1 | (f&FC)<<7
		nf = keep | xyFlags(na) | a&1
	case 4: // DAA
		var corr uint8
		carry := f&FC != 0
		if f&FH != 0 || a&15 > 9 {
			corr |= 0x06
		}
		if carry || a > 0x99 {
			corr |= 0x60
			carry = true
		}
		var h bool
		if f&FN != 0 {
			na = a - corr
			h = f&FH != 0 && a&15 < 6
		} else {
			na = a + corr
			h = a&15 > 9
		}
		nf = szFlags(na) | xyFlags(na) | b2f(parity(na), FPV) | f&FN | b2f(h, FH) | b2f(carry, FC)
	case 5:
		na = ^a
		nf = f&(FS|FZ|FPV|FC) | FH | FN | xyFlags(na)
	case 6:
		// bits 5,3: Z80 chips differ (not compared). The model's own value is
		// "from A", the behaviour zexall's silicon CRC was taken from.
		na = a
		nf = keep | FC | xyFlags(a)
		compare = 0xFF &^ (F5 | F3)
	case 7:
		na = a
		nf = keep | b2f(f&FC != 0, FH) | b2f(f&FC == 0, FC) | xyFlags(a)
		compare = 0xFF &^ (F5 | F3)
	}
	return
}

// Add16 returns a+b and the new F.
func Add16(a, b uint16, f uint8) (uint16, uint8) {
	sum := uint32(a) + uint32(b)
	r := uint16(sum)
	nf := f&(FS|FZ|FPV) | xyFlags(uint8(r>>8)) | b2f((a&0xFFF)+(b&0xFFF) > 0xFFF, FH) | b2f(sum > 0xFFFF, FC)
	return r, nf
}

// Adc16 returns a+b+carry and the new F.
func Adc16(a, b uint16, f uint8) (uint16, uint8) {
	c := uint32(f & FC)
	sum := uint32(a) + uint32(b) + c
	r := uint16(sum)
	ssum := int(int16(a)) + int(int16(b)) + int(c)
	nf := b2f(r&0x8000 != 0, FS) | b2f(r == 0, FZ) | xyFlags(uint8(r>>8)) |
		b2f(uint32(a&0xFFF)+uint32(b&0xFFF)+c > 0xFFF, FH) |
		b2f(ssum > 32767 || ssum < -32768, FPV) | b2f(sum > 0xFFFF, FC)
	return r, nf
}

// Sbc16 returns a-b-carry and the new F.
func Sbc16(a, b uint16, f uint8) (uint16, uint8) {
	c := int(f & FC)
	diff := int(a) - int(b) - c
	r := uint16(diff)
	sdiff := int(int16(a)) - int(int16(b)) - c
	nf := b2f(r&0x8000 != 0, FS) | b2f(r == 0, FZ) | xyFlags(uint8(r>>8)) | FN |
		b2f(int(a&0xFFF)-int(b&0xFFF)-c < 0, FH) |
		b2f(sdiff > 32767 || sdiff < -32768, FPV) | b2f(diff < 0, FC)
	return r, nf
}

func (x *exec) run() {
	s, in, out := x.s, x.in, x.out
	switch in.Kind {
	case KInvalid, KNop:
		// nothing
	case KLd8:
		x.set8(in.Dst, x.get8(in.Src))
	case KLd16:
		x.set16(in.Dst16, x.get16(in.Src16))
	case KPush:
		x.push(x.get16(in.Src16))
	case KPop:
		x.set16(in.Dst16, x.pop())
	case KEx:
		switch in.Sub {
		case 0:
			s.A, s.A2 = s.A2, s.A
			s.F, s.F2 = s.F2, s.F
		case 1:
			s.B, s.B2 = s.B2, s.B
			s.C, s.C2 = s.C2, s.C
			s.D, s.D2 = s.D2, s.D
			s.E, s.E2 = s.E2, s.E
			s.H, s.H2 = s.H2, s.H
			s.L, s.L2 = s.L2, s.L
		case 2:
			s.D, s.H = s.H, s.D
			s.E, s.L = s.L, s.E
		case 3:
			lo := x.bus.Read(s.SP)
			hi := x.bus.Read(s.SP + 1)
			v := x.get16(in.Dst16)
			x.bus.Write(s.SP, uint8(v))
			x.bus.Write(s.SP+1, uint8(v>>8))
			x.set16(in.Dst16, uint16(hi)<<8|uint16(lo))
		}
	case KAlu8:
		s.A, s.F = Alu8(in.Sub, s.A, x.get8(in.Src), s.F)
	case KInc8:
		v, f := Inc8(x.get8(in.Dst), s.F)
		x.set8(in.Dst, v)
		s.F = f
	case KDec8:
		v, f := Dec8(x.get8(in.Dst), s.F)
		x.set8(in.Dst, v)
		s.F = f
	case KAccum:
		s.A, s.F, out.FCompare = Accum(in.Sub, s.A, s.F)
	case KNeg:
		s.A, s.F = Sub8(0, s.A, 0)
	case KRot:
		v, f := Rot(in.Sub, x.get8(in.Dst), s.F)
		x.set8(in.Dst, v)
		s.F = f
	case KBit:
		v := x.get8(in.Src)
		set := v&(1<<in.Sub) != 0
		s.F = s.F&FC | FH | b2f(!set, FZ|FPV) | b2f(set && in.Sub == 7, FS) | xyFlags(v)
		if isMem(in.Src) {
			// bits 5,3 come from the internal MEMPTR register on silicon: not
			// compared. The model's own value: high byte of the effective
			// address for (IX+d)/(IY+d) (= MEMPTR there), 0 for (HL).
			s.F &^= F5 | F3
			if in.Src != LMemHL {
				s.F |= xyFlags(uint8(x.addr(in.Src) >> 8))
			}
			out.FCompare = 0xFF &^ (F5 | F3)
		}
	case KRes:
		x.set8(in.Dst, x.get8(in.Dst)&^(1<<in.Sub))
	case KSet:
		x.set8(in.Dst, x.get8(in.Dst)|(1<<in.Sub))
	case KRld, KRrd:
		hl := uint16(s.H)<<8 | uint16(s.L)
		m := x.bus.Read(hl)
		var nm uint8
		if in.Kind == KRld {
			nm = m<<4 | s.A&0x0F
			s.A = s.A&0xF0 | m>>4
		} else {
			nm = s.A<<4 | m>>4
			s.A = s.A&0xF0 | m&0x0F
		}
		x.bus.Write(hl, nm)
		s.F = s.F&FC | szFlags(s.A) | xyFlags(s.A) | b2f(parity(s.A), FPV)
	case KAdd16:
		r, f := Add16(x.get16(in.Dst16), x.get16(in.Src16), s.F)
		x.set16(in.Dst16, r)
		s.F = f
	case KAdc16:
		r, f := Adc16(x.get16(in.Dst16), x.get16(in.Src16), s.F)
		x.set16(in.Dst16, r)
		s.F = f
	case KSbc16:
		r, f := Sbc16(x.get16(in.Dst16), x.get16(in.Src16), s.F)
		x.set16(in.Dst16, r)
		s.F = f
	case KInc16:
		x.set16(in.Dst16, x.get16(in.Dst16)+1)
	case KDec16:
		x.set16(in.Dst16, x.get16(in.Dst16)-1)
	case KJp:
		if Cond(in.CC, s.F) {
			s.PC = in.NN
			out.Taken = true
		}
	case KJr:
		if Cond(in.CC, s.F) {
			s.PC += uint16(int16(int8(in.D)))
			out.Taken = true
		}
	case KDjnz:
		s.B--
		if s.B != 0 {
			s.PC += uint16(int16(int8(in.D)))
			out.Taken = true
		}
	case KJpReg:
		s.PC = x.get16(in.Src16)
	case KCall:
		if Cond(in.CC, s.F) {
			x.push(s.PC)
			s.PC = in.NN
			out.Taken = true
		}
	case KRet:
		if Cond(in.CC, s.F) {
			s.PC = x.pop()
			out.Taken = true
		}
	case KRetn:
		s.PC = x.pop()
		s.IFF1 = s.IFF2
		out.RETN = 1
	case KReti:
		// manual: IFF1 unchanged; silicon: IFF1 <- IFF2. Both accepted.
		out.IFF1Alt = s.IFF2
		x.iffAltSet = true
		s.PC = x.pop()
		out.RETI = 1
	case KRst:
		x.push(s.PC)
		s.PC = in.NN
	case KHalt:
		s.PC = x.pc0
		s.Halt = true
	case KDi:
		s.IFF1, s.IFF2 = false, false
	case KEi:
		s.IFF1, s.IFF2 = true, true
	case KIm:
		s.IM = int(in.Sub)
	case KInAn:
		s.A = x.bus.In(in.N)
	case KOutnA:
		x.bus.Out(in.N, s.A)
	case KInC:
		v := x.bus.In(s.C)
		x.set8(in.Dst, v)
		s.F = s.F&FC | szFlags(v) | xyFlags(v) | b2f(parity(v), FPV)
	case KOutC:
		x.bus.Out(s.C, x.get8(in.Src))
	case KLdAI:
		switch in.Sub {
		case 0:
			s.I = s.A
		case 1:
			s.R = s.A
		case 2, 3:
			v := s.I
			if in.Sub == 3 {
				v = s.R
			}
			s.A = v
			s.F = s.F&FC | szFlags(v) | xyFlags(v) | b2f(s.IFF2, FPV)
		}
	case KBlkLd:
		x.blkLd()
	case KBlkCp:
		x.blkCp()
	case KBlkIn, KBlkOut:
		x.blkIO()
	}
}

func (x *exec) step16(hi, lo *uint8, dec bool) {
	v := uint16(*hi)<<8 | uint16(*lo)
	if dec {
		v--
	} else {
		v++
	}
	*hi, *lo = uint8(v>>8), uint8(v)
}

func (x *exec) blkLd() {
	s, in, out := x.s, x.in, x.out
	dec, rep := in.Sub&1 != 0, in.Sub&2 != 0
	v := x.bus.Read(uint16(s.H)<<8 | uint16(s.L))
	x.bus.Write(uint16(s.D)<<8|uint16(s.E), v)
	x.step16(&s.H, &s.L, dec)
	x.step16(&s.D, &s.E, dec)
	x.step16(&s.B, &s.C, true)
	bcnz := s.B != 0 || s.C != 0
	n := s.A + v
	s.F = s.F&(FS|FZ|FC) | b2f(bcnz, FPV) | b2f(n&0x02 != 0, F5) | b2f(n&0x08 != 0, F3)
	if rep && bcnz {
		s.PC = x.pc0
		out.Repeat = true
		out.FCompare = 0xFF &^ (F5 | F3)
	}
}

func (x *exec) blkCp() {
	s, in, out := x.s, x.in, x.out
	dec, rep := in.Sub&1 != 0, in.Sub&2 != 0
	v := x.bus.Read(uint16(s.H)<<8 | uint16(s.L))
	r, f := Sub8(s.A, v, 0)
	x.step16(&s.H, &s.L, dec)
	x.step16(&s.B, &s.C, true)
	bcnz := s.B != 0 || s.C != 0
	n := r
	if f&FH != 0 {
		n--
	}
	s.F = s.F&FC | f&(FS|FZ|FH) | FN | b2f(bcnz, FPV) | b2f(n&0x02 != 0, F5) | b2f(n&0x08 != 0, F3)
	if rep && bcnz && r != 0 {
		s.PC = x.pc0
		out.Repeat = true
		out.FCompare = 0xFF &^ (F5 | F3)
	}
}

// blkIO: INI/IND/INIR/INDR/OUTI/OUTD/OTIR/OTDR. Documented: Z = (B-1 == 0),
// N = 1, everything else "unknown"/unaffected. Silicon (The Undocumented Z80
// Documented): see DESIGN appendix A. Per bit, either is accepted; Z is exact.
func (x *exec) blkIO() {
	s, in, out := x.s, x.in, x.out
	dec, rep := in.Sub&1 != 0, in.Sub&2 != 0
	hl := uint16(s.H)<<8 | uint16(s.L)
	var v uint8
	var k int
	if in.Kind == KBlkIn {
		v = x.bus.In(s.C)
		x.bus.Write(hl, v)
		s.B--
		x.step16(&s.H, &s.L, dec)
		c := s.C + 1
		if dec {
			c = s.C - 1
		}
		k = int(v) + int(c)
	} else {
		v = x.bus.Read(hl)
		s.B--
		x.bus.Out(s.C, v)
		x.step16(&s.H, &s.L, dec)
		k = int(v) + int(s.L)
	}
	f0 := s.F
	doc := f0&^(FZ|FN) | b2f(s.B == 0, FZ) | FN
	sil := szFlags(s.B) | xyFlags(s.B) | b2f(v&0x80 != 0, FN) | b2f(k > 255, FH|FC) |
		b2f(parity(uint8(k&7)^s.B), FPV)
	s.F = doc
	out.FAlt = sil
	x.faltSet = true
	if rep && s.B != 0 {
		s.PC = x.pc0
		out.Repeat = true
		// on repeating Steps silicon modifies H/PV/5/3 further; accept anything
		// there but Z, which stays exact, and N (doc or silicon).
		out.FCompare = FZ | FN | FS | FC
	}
}
