package main

import (
	"bytes"
	"context"
	"encoding/json"
	"fmt"
	"os"
	"os/exec"
	"time"

	z80 "github.com/koron-go/z80"
	"github.com/koron-go/z80/internal/verif/obs"
)

// Recovery scenario (C10 isolation, C12 totality). A device callback panics
// while a mode-0 supplied instruction executes on CPU A; the embedder recovers
// and keeps using A. Then a second CPU B, with its own memory, accepts a
// mode-0 request, A executes on, and A accepts another mode-0 request. Whatever
// the first, aborted acceptance left behind must not connect the two CPUs: B's
// accesses reach B's memory only, A's reach A's only, and the process
// survives. The scenario runs in a process of its own (`vz80 recoverchild`),
// because one way of getting this wrong ends in a fatal stack overflow that no
// recover() catches.

type recoverOut struct {
	Diff []string `json:"diff"`
}

type panicIO struct{}

func (panicIO) In(p uint8) uint8     { return 0 }
func (panicIO) Out(p uint8, v uint8) { panic("device fault injected by the harness") }

func recoverChild() int {
	bg := obs.NewBackground(7)
	memA, memB := obs.NewMem(bg), obs.NewMem(bg)
	memA.Limit, memB.Limit = 100000, 100000
	var d []string
	for round := 0; round < 3; round++ {
		memA.Reset()
		memB.Reset()
		a := &z80.CPU{Memory: memA, IO: panicIO{}}
		a.PC, a.SP, a.IM, a.IFF1 = 0x0100, 0x8000, 0, true
		a.Interrupt = z80.IM0Interrupt(0xD3, 0x10) // OUT (10h),A : the device panics
		func() {
			defer func() { recover() }()
			a.Step()
		}()
		// the embedder recovers and goes on with A elsewhere in its program
		a.Interrupt = nil
		a.IO = nil
		a.PC, a.SP, a.IFF1 = 0x0200, 0x8000, true
		memA.Poke(0x0200, 0x00, 0x00, 0x00, 0x00)
		memA.ClearLog()
		// B, an independent machine, accepts a mode-0 RST 38h
		b := &z80.CPU{Memory: memB}
		b.PC, b.SP, b.IM, b.IFF1 = 0x0300, 0x9000, 0, true
		b.Interrupt = z80.IM0Interrupt(0xFF)
		b.Step()
		// A executes on, then accepts a mode-0 RST 10h itself, then B another one
		a.Step()
		a.Step()
		a.Interrupt = z80.IM0Interrupt(0xD7)
		a.Step()
		b.PC, b.IFF1 = 0x0400, true
		b.Interrupt = z80.IM0Interrupt(0xCF)
		b.Step()
		// ---- verdict ----
		for _, w := range memA.Writes {
			if w.Addr != 0x7FFE && w.Addr != 0x7FFF {
				d = append(d, fmt.Sprintf("round %d: CPU A's memory was written at %04X (=%02X); A only pushes one return address at 7FFE/7FFF", round, w.Addr, w.Val))
			}
		}
		if len(memA.Writes) != 2 {
			d = append(d, fmt.Sprintf("round %d: CPU A's memory saw %d writes %s, want the 2 bytes of A's own return address", round, len(memA.Writes), fmtAcc(memA.Writes)))
		}
		wantB := map[uint16]bool{0x8FFE: true, 0x8FFF: true, 0x8FFC: true, 0x8FFD: true}
		for _, w := range memB.Writes {
			if !wantB[w.Addr] {
				d = append(d, fmt.Sprintf("round %d: CPU B's memory was written at %04X (=%02X); B only pushes two return addresses at 8FFC..8FFF", round, w.Addr, w.Val))
			}
		}
		if len(memB.Writes) != 4 {
			d = append(d, fmt.Sprintf("round %d: CPU B's memory saw %d writes %s, want 4 (two return addresses)", round, len(memB.Writes), fmtAcc(memB.Writes)))
		}
		if a.PC != 0x0010 || b.PC != 0x0008 {
			d = append(d, fmt.Sprintf("round %d: after the acceptances A is at %04X (want 0010), B at %04X (want 0008)", round, a.PC, b.PC))
		}
		for _, r := range memB.Reads {
			if r.Addr >= 0x0200 && r.Addr < 0x0210 {
				d = append(d, fmt.Sprintf("round %d: CPU A's program fetch at %04X went to CPU B's memory", round, r.Addr))
				break
			}
		}
		if len(d) > 0 {
			break
		}
	}
	out, _ := json.Marshal(recoverOut{Diff: d})
	fmt.Println(string(out))
	if len(d) > 0 {
		return 3
	}
	return 0
}

func runRecoverScenario(c *Ctx, name string) {
	self, err := os.Executable()
	if err != nil {
		return
	}
	ctx, cancel := context.WithTimeout(context.Background(), 2*time.Minute)
	defer cancel()
	cmd := exec.CommandContext(ctx, self, "recoverchild")
	var so, se bytes.Buffer
	cmd.Stdout, cmd.Stderr = &so, &se
	rerr := cmd.Run()
	c.Evaluations++
	c.Traces++
	c.Nontrivial++
	var out recoverOut
	lines := bytes.Split(bytes.TrimSpace(so.Bytes()), []byte("\n"))
	if jerr := json.Unmarshal(lines[len(lines)-1], &out); jerr != nil {
		msg := se.String()
		if len(msg) > 700 {
			msg = msg[:700]
		}
		c.Report(name, 0, "", map[string]string{"scenario": "device panic during a mode-0 instruction, recovered; then two CPUs accept mode-0 requests"}, []string{fmt.Sprintf("the process running the recovery scenario died without a verdict (%v): a device callback panicked during a mode-0 supplied instruction on CPU A, the embedder recovered and went on; then CPU B and CPU A accepted mode-0 requests. stderr: %s", rerr, msg)})
		return
	}
	if len(out.Diff) > 0 {
		c.Report(name, 0, "", map[string]string{"scenario": "device panic during a mode-0 instruction, recovered; then two CPUs accept mode-0 requests"}, append([]string{"a device callback panicked during a mode-0 supplied instruction on CPU A, the embedder recovered and went on; then CPU B (own memory) and CPU A accepted mode-0 requests:"}, out.Diff...))
	}
}

// Machine scenario (C08, C12). The common way to build a machine around this package is a struct that EMBEDS
// z80.CPU and is its own memory and port device (m.Memory = m; m.IO = m). Embedding promotes every exported
// method of CPU - Step, Run, GetFlag ... - into the machine type, so the value stored in CPU.IO and CPU.Memory
// has those methods too. Nothing may follow from that: a short program driven by Step and by Run ends as it
// must. In a process of its own, because one way of getting this wrong recurses until the stack is exhausted.
type embMachine struct {
	z80.CPU
	ram   [65536]uint8
	outs  []obs.PortAccess
	reads int
}

func (m *embMachine) Get(a uint16) uint8 {
	m.reads++
	if m.reads > 100000 {
		panic("watchdog: 100000 memory reads for a program of six instructions")
	}
	return m.ram[a]
}
func (m *embMachine) Set(a uint16, v uint8) { m.ram[a] = v }
func (m *embMachine) In(p uint8) uint8      { return p + 0x30 }
func (m *embMachine) Out(p uint8, v uint8)  { m.outs = append(m.outs, obs.PortAccess{Out: true, Port: p, Val: v}) }

func machineChild() int {
	var d []string
	for mode := 0; mode < 2 && len(d) == 0; mode++ {
		m := &embMachine{}
		m.Memory, m.IO = m, m
		// LD A,5 ; OUT (1),A ; IN A,(2) ; LD (4000h),A ; INC A ; HALT
		copy(m.ram[0x0100:], []uint8{0x3E, 0x05, 0xD3, 0x01, 0xDB, 0x02, 0x32, 0x00, 0x40, 0x3C, 0x76})
		m.PC, m.SP = 0x0100, 0x8000
		m.BreakPoints = map[uint16]struct{}{0x0102: {}, 0x0106: {}}
		var err error
		steps := 0
		func() {
			defer func() {
				if r := recover(); r != nil {
					d = append(d, fmt.Sprintf("panic: %v", r))
				}
			}()
			if mode == 0 {
				for steps = 0; steps < 50 && !m.HALT; steps++ {
					m.Step()
				}
			} else {
				for _, bp := range []uint16{0x0102, 0x0106} {
					err = m.Run(context.Background())
					if err != z80.ErrBreakPoint || m.PC != bp {
						d = append(d, fmt.Sprintf("Run returned %v at PC=%04X, want the breakpoint at %04X (breakpoints after the 1st and after the 3rd instruction)", err, m.PC, bp))
						return
					}
				}
				err = m.Run(context.Background())
			}
		}()
		how := []string{"driven by Step", "driven by Run"}[mode]
		if len(d) == 0 && (err != nil || !m.HALT || m.PC != 0x010A || m.AF.Hi != 0x33 || m.ram[0x4000] != 0x32 || len(m.outs) != 1 || m.outs[0] != (obs.PortAccess{Out: true, Port: 1, Val: 5}) || (mode == 0 && steps != 6)) {
			d = append(d, fmt.Sprintf("a machine that embeds z80.CPU and is its own Memory and IO, %s: error %v, HALT=%v, PC=%04X (want 010A), A=%02X (want 33), (4000h)=%02X (want 32), port writes %s (want [out(01)=05]), Steps %d (want 6 when stepping)", how, err, m.HALT, m.PC, m.AF.Hi, m.ram[0x4000], fmtPorts(m.outs), steps))
		}
	}
	out, _ := json.Marshal(recoverOut{Diff: d})
	fmt.Println(string(out))
	if len(d) > 0 {
		return 3
	}
	return 0
}

func runMachineScenario(c *Ctx, name string) {
	self, err := os.Executable()
	if err != nil {
		return
	}
	ctx, cancel := context.WithTimeout(context.Background(), 2*time.Minute)
	defer cancel()
	cmd := exec.CommandContext(ctx, self, "machinechild")
	var so, se bytes.Buffer
	cmd.Stdout, cmd.Stderr = &so, &se
	rerr := cmd.Run()
	c.Evaluations++
	c.Traces++
	c.Nontrivial++
	var out recoverOut
	lines := bytes.Split(bytes.TrimSpace(so.Bytes()), []byte("\n"))
	if jerr := json.Unmarshal(lines[len(lines)-1], &out); jerr != nil {
		msg := se.String()
		if len(msg) > 500 {
			msg = msg[:500]
		}
		c.Report(name, 0, "", map[string]string{"scenario": "a machine struct that embeds z80.CPU and is its own Memory and IO"}, []string{fmt.Sprintf("the process running a machine that embeds z80.CPU and is its own Memory and IO (m.Memory = m; m.IO = m) died without a verdict (%v). stderr: %s", rerr, msg)})
		return
	}
	if len(out.Diff) > 0 {
		c.Report(name, 0, "", map[string]string{"scenario": "a machine struct that embeds z80.CPU and is its own Memory and IO"}, out.Diff)
	}
}
