package main

import (
	"bytes"
	"context"
	"encoding/json"
	"fmt"
	"os"
	"os/exec"
	"time"

	z80 "github.com/koron-go/z80"
	"github.com/koron-go/z80/internal/verif/obs"
)

// Recovery scenario (C10 isolation, C12 totality). A device callback panics
// while a mode-0 supplied instruction executes on CPU A; the embedder recovers
// and keeps using A. Then a second CPU B, with its own memory, accepts a
// mode-0 request, A executes on, and A accepts another mode-0 request. Whatever
// the first, aborted acceptance left behind must not connect the two CPUs: B's
// accesses reach B's memory only, A's reach A's only, and the process
// survives. The scenario runs in a process of its own (`vz80 recoverchild`),
// because one way of getting this wrong ends in a fatal stack overflow that no
// recover() catches.

type recoverOut struct {
	Diff []string `json:"diff"`
}

type panicIO struct{}

func (panicIO) In(p uint8) uint8     { return 0 }
func (panicIO) Out(p uint8, v uint8) { panic("device fault injected by the harness") }

func recoverChild() int {
	bg := obs.NewBackground(7)
	memA, memB := obs.NewMem(bg), obs.NewMem(bg)
	memA.Limit, memB.Limit = 100000, 100000
	var d []string
	for round := 0; round < 3; round++ {
		memA.Reset()
		memB.Reset()
		a := &z80.CPU{Memory: memA, IO: panicIO{}}
		a.PC, a.SP, a.IM, a.IFF1 = 0x0100, 0x8000, 0, true
		a.Interrupt = z80.IM0Interrupt(0xD3, 0x10) // OUT (10h),A : the device panics
		func() {
			defer func() { recover() }()
			a.Step()
		}()
		// the embedder recovers and goes on with A elsewhere in its program
		a.Interrupt = nil
		a.IO = nil
		a.PC, a.SP, a.IFF1 = 0x0200, 0x8000, true
		memA.Poke(0x0200, 0x00, 0x00, 0x00, 0x00)
		memA.ClearLog()
		// B, an independent machine, accepts a mode-0 RST 38h
		b := &z80.CPU{Memory: memB}
		b.PC, b.SP, b.IM, b.IFF1 = 0x0300, 0x9000, 0, true
		b.Interrupt = z80.IM0Interrupt(0xFF)
		b.Step()
		// A executes on, then accepts a mode-0 RST 10h itself, then B another one
		a.Step()
		a.Step()
		a.Interrupt = z80.IM0Interrupt(0xD7)
		a.Step()
		b.PC, b.IFF1 = 0x0400, true
		b.Interrupt = z80.IM0Interrupt(0xCF)
		b.Step()
		// ---- verdict ----
		for _, w := range memA.Writes {
			if w.Addr != 0x7FFE && w.Addr != 0x7FFF {
				d = append(d, fmt.Sprintf("round %d: CPU A's memory was written at %04X (=%02X); A only pushes one return address at 7FFE/7FFF", round, w.Addr, w.Val))
			}
		}
		if len(memA.Writes) != 2 {
			d = append(d, fmt.Sprintf("round %d: CPU A's memory saw %d writes %s, want the 2 bytes of A's own return address", round, len(memA.Writes), fmtAcc(memA.Writes)))
		}
		wantB := map[uint16]bool{0x8FFE: true, 0x8FFF: true, 0x8FFC: true, 0x8FFD: true}
		for _, w := range memB.Writes {
			if !wantB[w.Addr] {
				d = append(d, fmt.Sprintf("round %d: CPU B's memory was written at %04X (=%02X); B only pushes two return addresses at 8FFC..8FFF", round, w.Addr, w.Val))
			}
		}
		if len(memB.Writes) != 4 {
			d = append(d, fmt.Sprintf("round %d: CPU B's memory saw %d writes %s, want 4 (two return addresses)", round, len(memB.Writes), fmtAcc(memB.Writes)))
		}
		if a.PC != 0x0010 || b.PC != 0x0008 {
			d = append(d, fmt.Sprintf("round %d: after the acceptances A is at %04X (want 0010), B at %04X (want 0008)", round, a.PC, b.PC))
		}
		for _, r := range memB.Reads {
			if r.Addr >= 0x0200 && r.Addr < 0x0210 {
				d = append(d, fmt.Sprintf("round %d: CPU A's program fetch at %04X went to CPU B's memory", round, r.Addr))
				break
			}
		}
		if len(d) > 0 {
			break
		}
	}
	out, _ := json.Marshal(recoverOut{Diff: d})
	fmt.Println(string(out))
	if len(d) > 0 {
		return 3
	}
	return 0
}

func runRecoverScenario(c *Ctx, name string) {
	self, err := os.Executable()
	if err != nil {
		return
	}
	ctx, cancel := context.WithTimeout(context.Background(), 2*time.Minute)
	defer cancel()
	cmd := exec.CommandContext(ctx, self, "recoverchild")
	var so, se bytes.Buffer
	cmd.Stdout, cmd.Stderr = &so, &se
	rerr := cmd.Run()
	c.Evaluations++
	c.Traces++
	c.Nontrivial++
	var out recoverOut
	lines := bytes.Split(bytes.TrimSpace(so.Bytes()), []byte("\n"))
	if jerr := json.Unmarshal(lines[len(lines)-1], &out); jerr != nil {
		msg := se.String()
		if len(msg) > 700 {
			msg = msg[:700]
		}
		c.Report(name, 0, "", map[string]string{"scenario": "device panic during a mode-0 instruction, recovered; then two CPUs accept mode-0 requests"}, []string{fmt.Sprintf("the process running the recovery scenario died without a verdict (%v): a device callback panicked during a mode-0 supplied instruction on CPU A, the embedder recovered and went on; then CPU B and CPU A accepted mode-0 requests. stderr: %s", rerr, msg)})
		return
	}
	if len(out.Diff) > 0 {
		c.Report(name, 0, "", map[string]string{"scenario": "device panic during a mode-0 instruction, recovered; then two CPUs accept mode-0 requests"}, append([]string{"a device callback panicked during a mode-0 supplied instruction on CPU A, the embedder recovered and went on; then CPU B (own memory) and CPU A accepted mode-0 requests:"}, out.Diff...))
	}
}
