package main

// C05: each Step makes exactly the instruction's memory and port accesses.
// Same case stream as C01; compares the access *logs*: multiset of reads
// (instruction bytes each once + data reads), multiset of writes, the ordered
// port log, and that the value the device returned is the value used.
func init() {
	register("C05", checkC05)
	replayers["c05/concrete"] = replayConc
	replayers["c05/environment"] = replayEnvSense
	replayers["c05/access"] = func(c *Ctx, raw []byte) []string {
		return replayStepCase(c, raw, AspReads|AspWrites|AspPortLog)
	}
}

func checkC05(c *Ctx) {
	c.Rule = "every implemented encoding x lattice (pointers at/around 0x0000/0xFFFF, operands overlapping the instruction bytes, stack overlapping the instruction, taken/untaken for all 256 F, 4 port-device answer patterns, 4 data patterns) ; per Step the multiset of memory reads, the multiset of memory writes (address,value) and the ordered port log (direction,port,value) of the real Step are compared with refz80's. Concrete-type pass as in C01 (DumbMemory of 3 lengths, MapMemory, DumbIO unwrapped vs wrapped; port forms also with a port device that re-points CPU.Memory on every access): same post-state and contents. Environment pass: for every environment variable the package's non-test sources read (found by parsing them), fresh processes with the variable set to 1/true/on/debug/0 execute every pinned encoding from 4 base vectors x 2 F and compare all aspects incl. access logs with refz80. Device shapes: every port instruction with CPU.IO holding a stateless device of an unusual Go shape (nil *T with receiver-free methods, zero-size struct value, named uint8 0, nil map type, nil func type) vs the same value behind a pointer wrapper: same state, memory and calls; RETN/RETI handlers of such shapes notified once. Non-trivial = the Step made a data or port access beyond fetching its own bytes, or changed state beyond PC/R (counted)."
	c.Bound = "lattice v1 " + c.Tier
	runStepConformance(c, stepConfOpts{name: "c05/access", aspects: AspReads | AspWrites | AspPortLog})
	if set, err := implementedSet(c); err == nil {
		// on the package's own device types no log exists, but a dropped, extra or misplaced access shows in the
		// contents: unwrapped vs behind an opaque wrapper (whose accesses the main pass has just compared)
		var encs []*Enc
		for i := range set.Encs {
			encs = append(encs, &set.Encs[i])
		}
		runConcreteTypes(c, "c05/concrete", encs, []uint8{0x00, 0xFF})
		runEnvSense(c, "c05/environment")
		runDeviceShapes(c, "c05/shapes")
	}
	c.Assume("order of the memory accesses inside one Step is not compared (statement: multisets); the port log is compared in order")
	c.Assume("refz80 reproduces the zexdoc/zexall CRCs (vz80 selfcheck refcrc, run by setup_cmd)")
}
