package main

import (
	"context"
	"encoding/json"
	"fmt"
	"os"
	"runtime"
	"sync"
	"sync/atomic"
	"time"
	"unsafe"

	z80 "github.com/koron-go/z80"
	"github.com/koron-go/z80/internal/verif/obs"
	"github.com/koron-go/z80/internal/verif/refz80"
)

// ---- state conversion ------------------------------------------------------

func toCPU(s *refz80.State, cpu *z80.CPU) {
	cpu.AF = z80.Register{Hi: s.A, Lo: s.F}
	cpu.BC = z80.Register{Hi: s.B, Lo: s.C}
	cpu.DE = z80.Register{Hi: s.D, Lo: s.E}
	cpu.HL = z80.Register{Hi: s.H, Lo: s.L}
	cpu.Alternate.AF = z80.Register{Hi: s.A2, Lo: s.F2}
	cpu.Alternate.BC = z80.Register{Hi: s.B2, Lo: s.C2}
	cpu.Alternate.DE = z80.Register{Hi: s.D2, Lo: s.E2}
	cpu.Alternate.HL = z80.Register{Hi: s.H2, Lo: s.L2}
	cpu.IX, cpu.IY, cpu.SP, cpu.PC = s.IX, s.IY, s.SP, s.PC
	cpu.IR = z80.Register{Hi: s.I, Lo: s.R}
	cpu.IFF1, cpu.IFF2, cpu.IM = s.IFF1, s.IFF2, s.IM
	cpu.HALT = s.Halt
}

func fromCPU(cpu *z80.CPU) refz80.State {
	return refz80.State{
		A: cpu.AF.Hi, F: cpu.AF.Lo, B: cpu.BC.Hi, C: cpu.BC.Lo, D: cpu.DE.Hi, E: cpu.DE.Lo, H: cpu.HL.Hi, L: cpu.HL.Lo,
		A2: cpu.Alternate.AF.Hi, F2: cpu.Alternate.AF.Lo, B2: cpu.Alternate.BC.Hi, C2: cpu.Alternate.BC.Lo,
		D2: cpu.Alternate.DE.Hi, E2: cpu.Alternate.DE.Lo, H2: cpu.Alternate.HL.Hi, L2: cpu.Alternate.HL.Lo,
		IX: cpu.IX, IY: cpu.IY, SP: cpu.SP, PC: cpu.PC, I: cpu.IR.Hi, R: cpu.IR.Lo,
		IFF1: cpu.IFF1, IFF2: cpu.IFF2, IM: cpu.IM, Halt: cpu.HALT,
	}
}

// refBus adapts the recording devices to the model's Bus.
type refBus struct {
	m  *obs.Mem
	io *obs.IO
}

func (b *refBus) Read(a uint16) uint8     { return b.m.Get(a) }
func (b *refBus) Write(a uint16, v uint8) { b.m.Set(a, v) }
func (b *refBus) In(p uint8) uint8        { return b.io.In(p) }
func (b *refBus) Out(p uint8, v uint8)    { b.io.Out(p, v) }

type counter struct{ n int }

func (c *counter) RETNHandle() { c.n++ }
func (c *counter) RETIHandle() { c.n++ }

// Worker owns one CPU under test, one model state and their devices.
type Worker struct {
	cpu        z80.CPU
	imem, rmem *obs.Mem
	iio, rio   *obs.IO
	retn, reti counter
	bus        *refBus
	model      refz80.Model
	res        StepResult
	envReq     *z80.Interrupt
	// frame: the registers the CPU shows to its devices during each callback (enableFrame)
	frame []frameSnap
	// scratch
	diff []string
	// liveness: published while the worker is inside CPU.Step (see stepLiveness)
	live    *liveSlot
	curCase *Case
}

// frameSnap is what a device callback saw in the CPU's exported registers.
type frameSnap struct {
	S      refz80.State
	PortIn bool
}

// enableFrame makes the worker record the CPU's exported registers at every memory and port callback.
// Devices are entitled to look (a debugger's memory watch, a port decoder that wants the upper address
// byte), so an instruction must not park temporary values in registers it does not use.
func (w *Worker) enableFrame() {
	w.imem.Hook = func(write bool, addr uint16) { w.frame = append(w.frame, frameSnap{S: fromCPU(&w.cpu)}) }
	w.iio.Hook = func(out bool, port uint8) { w.frame = append(w.frame, frameSnap{S: fromCPU(&w.cpu), PortIn: !out}) }
}

// frameDiff: a register the complete instruction leaves unchanged (per the reference) holds that value
// at every callback; the block input instructions present the not yet decremented B to the device
// (Z80 CPU User Manual, INI: "register B ... placed on the top half of the address bus at this time.
// ... then ... the byte counter is decremented").
func (w *Worker) frameDiff(cs *Case, res *StepResult) []string {
	if res.Panic != nil || res.RefPanic != nil || res.Out.Inst.Kind == refz80.KInvalid {
		return nil
	}
	var d []string
	pre, exp := &cs.S, &res.Exp
	for i := range w.frame {
		g := &w.frame[i].S
		chk8 := func(n string, p, e, v uint8) {
			if p == e && v != p {
				d = append(d, fmt.Sprintf("at callback %d of the Step register %s reads %02X; the instruction does not use it (before and after: %02X)", i, n, v, p))
			}
		}
		chk16 := func(n string, p, e, v uint16) {
			if p == e && v != p {
				d = append(d, fmt.Sprintf("at callback %d of the Step register %s reads %04X; the instruction does not use it (before and after: %04X)", i, n, v, p))
			}
		}
		chk8("A", pre.A, exp.A, g.A)
		chk8("B", pre.B, exp.B, g.B)
		chk8("C", pre.C, exp.C, g.C)
		chk8("D", pre.D, exp.D, g.D)
		chk8("E", pre.E, exp.E, g.E)
		chk8("H", pre.H, exp.H, g.H)
		chk8("L", pre.L, exp.L, g.L)
		chk8("A'", pre.A2, exp.A2, g.A2)
		chk8("F'", pre.F2, exp.F2, g.F2)
		chk8("B'", pre.B2, exp.B2, g.B2)
		chk8("C'", pre.C2, exp.C2, g.C2)
		chk8("D'", pre.D2, exp.D2, g.D2)
		chk8("E'", pre.E2, exp.E2, g.E2)
		chk8("H'", pre.H2, exp.H2, g.H2)
		chk8("L'", pre.L2, exp.L2, g.L2)
		chk8("I", pre.I, exp.I, g.I)
		chk16("IX", pre.IX, exp.IX, g.IX)
		chk16("IY", pre.IY, exp.IY, g.IY)
		if w.frame[i].PortIn && res.Out.Inst.Kind == refz80.KBlkIn && g.B != pre.B {
			d = append(d, fmt.Sprintf("during the port read of the block input instruction the device sees B=%02X; the Z80 presents the not yet decremented B=%02X", g.B, pre.B))
		}
		if len(d) > 0 {
			break
		}
	}
	return d
}

func newWorker(bg *[65536]uint8) *Worker {
	w := &Worker{imem: obs.NewMem(bg), rmem: obs.NewMem(bg), iio: &obs.IO{}, rio: &obs.IO{}}
	w.cpu.Memory = w.imem
	w.cpu.IO = w.iio
	w.cpu.RETNHandler = &w.retn
	w.cpu.RETIHandler = &w.reti
	w.bus = &refBus{w.rmem, w.rio}
	w.imem.Limit = 4096
	w.live = newLiveSlot()
	return w
}

// Step liveness. A Step that loops without touching memory is invisible to the access-count watchdog of the
// observing memory, and the worker that runs into it would simply never come back: the check would sit there
// until somebody's timeout kills it, without a verdict. Every worker therefore publishes "I am inside
// CPU.Step with this case" (seq odd), and one monitor goroutine per process looks every five seconds: a
// worker that has been inside the same Step for two minutes - a Step takes well under a microsecond - is
// reported with its case, and the run ends with that violation.
type liveSlot struct {
	_   [128]byte // slots of different workers must not share a cache line: seq is stored to around every Step
	seq uint64
	cur interface{} // *Case, *c12Config, ...: marshalled into the replay file
	_   [128]byte
}

func (l *liveSlot) enter(cur interface{}) {
	if l == nil {
		return
	}
	l.cur = cur
	atomic.StoreUint64(&l.seq, l.seq+1)
}

// reset: not inside a Step any more, whatever was published.
func (l *liveSlot) reset() {
	if l != nil && l.seq&1 == 1 {
		atomic.StoreUint64(&l.seq, l.seq+1)
	}
}

func (l *liveSlot) leave() {
	if l != nil {
		atomic.StoreUint64(&l.seq, l.seq+1)
	}
}

var live struct {
	mu      sync.Mutex
	slots   []*liveSlot
	ctx     *Ctx
	started bool
}

func newLiveSlot() *liveSlot {
	l := &liveSlot{}
	live.mu.Lock()
	live.slots = append(live.slots, l)
	if !live.started && live.ctx != nil {
		live.started = true
		go stepLiveness()
	}
	live.mu.Unlock()
	return l
}

// liveStep executes one Step of cpu under a liveness slot, for code that has no worker of its own. The slot is
// chosen by the address of the CPU (goroutines step CPUs of their own, so a slot stays in one core's cache);
// if two goroutines collide on a slot the second one simply steps unpublished. A panic passes through.
var liveShard [1024]liveSlot

func init() {
	for i := range liveShard {
		live.slots = append(live.slots, &liveShard[i])
	}
}

func liveStep(cpu *z80.CPU) {
	l := &liveShard[(uintptr(unsafe.Pointer(cpu))>>4)%uintptr(len(liveShard))]
	q := atomic.LoadUint64(&l.seq)
	if q&1 == 0 && atomic.CompareAndSwapUint64(&l.seq, q, q+1) {
		l.cur = cpu
		defer atomic.StoreUint64(&l.seq, q+2)
	}
	cpu.Step()
}

// liveStep for a worker's own CPU.
func (w *Worker) liveStep() {
	defer w.live.leave()
	w.live.enter(&w.cpu)
	w.cpu.Step()
}

// describeCPU: registers, pending request and the bytes at PC of a CPU that is stuck inside Step (read without
// synchronisation: the goroutine that owns it has not moved for minutes).
func describeCPU(cpu *z80.CPU) string {
	st := fromCPU(cpu)
	s := fmt.Sprintf("state %v", stateMap(&st))
	if r := cpu.Interrupt; r != nil {
		d := r.Data
		if len(d) > 8 {
			d = d[:8]
		}
		s += fmt.Sprintf(", pending request type %d with %d data bytes [% X]", r.Type, len(r.Data), d)
	}
	func() {
		defer func() { recover() }()
		if m, ok := cpu.Memory.(*obs.Mem); ok {
			s += fmt.Sprintf(", memory at PC: % X", []uint8{m.Peek(cpu.PC), m.Peek(cpu.PC + 1), m.Peek(cpu.PC + 2), m.Peek(cpu.PC + 3)})
		}
	}()
	return s
}

// two minutes; VERIF_STEP_LIVENESS_SECONDS shortens it for the machinery's own self-test (mutants/*-live-*.diff)
var stepLivenessLimit = time.Duration(envInt("VERIF_STEP_LIVENESS_SECONDS", 120)) * time.Second

// heapGuard ends the run with a violation when the live heap passes heapLimit while some worker is inside a
// Step it entered before the previous look. The drivers' own peak is recorded in the evidence (peak_heap_mb);
// on the unchanged tree it stays below 0.5 GB in the quick tier and below 5 GB in the thorough tier - and the guard
// additionally needs a worker that has been inside one Step for more than a second.
const heapLimit = 20 << 30

var heapPeak uint64
var heapPrev = map[*liveSlot]uint64{}

func heapGuard() {
	var ms runtime.MemStats
	runtime.ReadMemStats(&ms)
	if ms.HeapAlloc > atomic.LoadUint64(&heapPeak) {
		atomic.StoreUint64(&heapPeak, ms.HeapAlloc)
	}
	live.mu.Lock()
	ls := append([]*liveSlot(nil), live.slots...)
	c := live.ctx
	live.mu.Unlock()
	var stuck *liveSlot
	for _, l := range ls {
		q := atomic.LoadUint64(&l.seq)
		if q&1 == 1 && heapPrev[l] == q {
			stuck = l
		}
		heapPrev[l] = q
	}
	if ms.HeapAlloc < heapLimit || stuck == nil {
		return
	}
	desc := fmt.Sprintf("%+v", stuck.cur)
	var cfg interface{} = map[string]string{"case": desc}
	if cs, ok := stuck.cur.(*Case); ok {
		cfg = cs.toJSON(c.Salt)
		desc = fmt.Sprintf("bytes % X at PC=%04X, state %v", cs.Bytes, cs.S.PC, stateMap(&cs.S))
	} else if cp, ok := stuck.cur.(*z80.CPU); ok {
		desc = describeCPU(cp)
		cfg = map[string]string{"cpu": desc}
	} else if b, err := json.Marshal(stuck.cur); err == nil {
		desc = string(b)
		cfg = stuck.cur
	}
	c.Report("no-return:step-allocating", 0, "", cfg, []string{fmt.Sprintf("the live heap reached %d MB while CPU.Step has been running for more than a second on one case (a Step takes under a microsecond and allocates next to nothing): %s", ms.HeapAlloc>>20, desc)})
	os.Exit(c.finish())
}

func startLiveness() {
	live.mu.Lock()
	if !live.started && live.ctx != nil {
		live.started = true
		go stepLiveness()
	}
	live.mu.Unlock()
}

func stepLiveness() {
	// counted in looks, not in elapsed time: if the whole process is suspended for a while (a stopped container,
	// a laptop lid) the clock jumps but the number of looks does not
	type obsv struct {
		seq   uint64
		looks int
	}
	last := map[*liveSlot]obsv{}
	need := int(stepLivenessLimit / (5 * time.Second))
	for {
		// memory: a Step that allocates without bound would exhaust the machine (the sandbox has no limit) long
		// before two minutes are over; the heap is looked at once a second
		for i := 0; i < 5; i++ {
			time.Sleep(time.Second)
			heapGuard()
		}
		live.mu.Lock()
		ls := append([]*liveSlot(nil), live.slots...)
		c := live.ctx
		live.mu.Unlock()
		for _, l := range ls {
			q := atomic.LoadUint64(&l.seq)
			o, ok := last[l]
			if q&1 == 0 || !ok || o.seq != q {
				last[l] = obsv{q, 0}
				continue
			}
			o.looks++
			last[l] = o
			if o.looks >= need {
				var cfg interface{} = l.cur
				desc := fmt.Sprintf("%+v", l.cur)
				if cs, ok := l.cur.(*Case); ok {
					cfg = cs.toJSON(c.Salt)
					desc = fmt.Sprintf("bytes % X at PC=%04X, state %v", cs.Bytes, cs.S.PC, stateMap(&cs.S))
				} else if cp, ok := l.cur.(*z80.CPU); ok {
					desc = describeCPU(cp)
					cfg = map[string]string{"cpu": desc}
				} else if b, err := json.Marshal(l.cur); err == nil {
					desc = string(b)
				}
				c.Report("no-return:step", 0, "", cfg, []string{fmt.Sprintf("CPU.Step did not return within %v (it makes no memory access, so the access-count watchdog cannot end it; a Step takes under a microsecond): %s", stepLivenessLimit, desc)})
				os.Exit(c.finish())
			}
		}
	}
}

// warmFork returns a CPU *value* with a past: another CPU object (which stays alive) first executes a few
// instructions that only read (a load from FFFFh, a 16-bit load from FFFEh, an input, a jump to a high
// address) and then the given code once; the value returned is a by-value copy of that CPU. Whatever an
// implementation keeps inside the CPU besides the exported fields - a pointer into its own registers built
// on first use, a remembered address, a cached decode - is now in a copy at another address, with a history
// that has nothing to do with the case about to run. A Step depends on States, the pending request, memory
// and ports only, so none of this may show. poke stores set-up bytes into mem.
func warmFork(mem z80.Memory, io z80.IO, poke func(a uint16, b ...uint8), st *refz80.State, code []uint8) z80.CPU {
	warm := &z80.CPU{Memory: mem, IO: io}
	s := *st
	s.PC, s.SP = 0xE000, 0xD000
	toCPU(&s, warm)
	poke(0xE000, 0x3A, 0xFF, 0xFF, 0x2A, 0xFE, 0xFF, 0xDB, 0xFF, 0xC3, 0xF0, 0xFF)
	poke(0xFFF0, 0x00)
	func() {
		defer func() { recover() }()
		for i := 0; i < 5; i++ {
			liveStep(warm)
		}
		s = *st
		toCPU(&s, warm)
		poke(s.PC, code...)
		liveStep(warm)
	}()
	return *warm
}

// Poke is a set-up store of consecutive bytes.
type Poke struct {
	Addr uint16
	Data []uint8
}

// Case is one single-Step conformance case.
type Case struct {
	S     refz80.State // pre-state (PC addresses the instruction)
	Bytes []uint8      // instruction bytes, poked at PC after all data pokes
	Pokes []Poke
	IOX   uint8
	IOY   uint8
	// IOFixed: the device answers IOX on every port
	IOFixed bool
	// Env: 0 normal; 1 refused maskable request pending; 2 CPU.IO == nil; 3 no RETN/RETI handlers
	Env int
}

// CaseJSON is the replay-file form of a Case.
type CaseJSON struct {
	Bytes string            `json:"bytes"`
	State map[string]string `json:"state"`
	Pokes map[string]string `json:"pokes,omitempty"`
	IOX   uint8             `json:"io_x"`
	IOY   uint8             `json:"io_y"`
	IOFix bool              `json:"io_fixed,omitempty"`
	Env   int               `json:"env,omitempty"`
	Salt  uint32            `json:"salt"`
}

func hexBytes(b []uint8) string {
	s := ""
	for i, x := range b {
		if i > 0 {
			s += " "
		}
		s += fmt.Sprintf("%02X", x)
	}
	return s
}

func stateMap(s *refz80.State) map[string]string {
	b := func(v bool) string {
		if v {
			return "1"
		}
		return "0"
	}
	return map[string]string{
		"AF": fmt.Sprintf("%02X%02X", s.A, s.F), "BC": fmt.Sprintf("%02X%02X", s.B, s.C),
		"DE": fmt.Sprintf("%02X%02X", s.D, s.E), "HL": fmt.Sprintf("%02X%02X", s.H, s.L),
		"AF'": fmt.Sprintf("%02X%02X", s.A2, s.F2), "BC'": fmt.Sprintf("%02X%02X", s.B2, s.C2),
		"DE'": fmt.Sprintf("%02X%02X", s.D2, s.E2), "HL'": fmt.Sprintf("%02X%02X", s.H2, s.L2),
		"IX": fmt.Sprintf("%04X", s.IX), "IY": fmt.Sprintf("%04X", s.IY),
		"SP": fmt.Sprintf("%04X", s.SP), "PC": fmt.Sprintf("%04X", s.PC),
		"I": fmt.Sprintf("%02X", s.I), "R": fmt.Sprintf("%02X", s.R),
		"IFF1": b(s.IFF1), "IFF2": b(s.IFF2), "IM": fmt.Sprint(s.IM), "HALT": b(s.Halt),
	}
}

func parseStateMap(m map[string]string) refz80.State {
	var s refz80.State
	h16 := func(k string) uint16 {
		var v uint16
		fmt.Sscanf(m[k], "%04X", &v)
		return v
	}
	h8 := func(k string) uint8 {
		var v uint8
		fmt.Sscanf(m[k], "%02X", &v)
		return v
	}
	pair := func(k string) (uint8, uint8) { v := h16(k); return uint8(v >> 8), uint8(v) }
	s.A, s.F = pair("AF")
	s.B, s.C = pair("BC")
	s.D, s.E = pair("DE")
	s.H, s.L = pair("HL")
	s.A2, s.F2 = pair("AF'")
	s.B2, s.C2 = pair("BC'")
	s.D2, s.E2 = pair("DE'")
	s.H2, s.L2 = pair("HL'")
	s.IX, s.IY, s.SP, s.PC = h16("IX"), h16("IY"), h16("SP"), h16("PC")
	s.I, s.R = h8("I"), h8("R")
	s.IFF1, s.IFF2, s.Halt = m["IFF1"] == "1", m["IFF2"] == "1", m["HALT"] == "1"
	fmt.Sscanf(m["IM"], "%d", &s.IM)
	return s
}

func parseHexBytes(s string) []uint8 {
	var out []uint8
	var v uint8
	for _, f := range splitFields(s) {
		fmt.Sscanf(f, "%02X", &v)
		out = append(out, v)
	}
	return out
}

func splitFields(s string) []string {
	var out []string
	cur := ""
	for _, r := range s {
		if r == ' ' {
			if cur != "" {
				out = append(out, cur)
				cur = ""
			}
		} else {
			cur += string(r)
		}
	}
	if cur != "" {
		out = append(out, cur)
	}
	return out
}

func (cs *Case) toJSON(salt uint32) CaseJSON {
	j := CaseJSON{Bytes: hexBytes(cs.Bytes), State: stateMap(&cs.S), IOX: cs.IOX, IOY: cs.IOY, IOFix: cs.IOFixed, Env: cs.Env, Salt: salt}
	if len(cs.Pokes) > 0 {
		j.Pokes = map[string]string{}
		for _, p := range cs.Pokes {
			j.Pokes[fmt.Sprintf("%04X", p.Addr)] = hexBytes(p.Data)
		}
	}
	return j
}

func caseFromJSON(j *CaseJSON) Case {
	cs := Case{S: parseStateMap(j.State), Bytes: parseHexBytes(j.Bytes), IOX: j.IOX, IOY: j.IOY, IOFixed: j.IOFix, Env: j.Env}
	for k, v := range j.Pokes {
		var a uint16
		fmt.Sscanf(k, "%04X", &a)
		cs.Pokes = append(cs.Pokes, Poke{a, parseHexBytes(v)})
	}
	return cs
}

// Aspects of a Step that a comparison may include.
const (
	AspState    = 1 << iota // registers, flags (under policy), IFF, IM, HALT, PC, SP
	AspR                    // refresh register
	AspI                    // interrupt vector register I
	AspMem                  // final memory image (journal)
	AspPortsOut             // bytes sent to ports
	AspReads                // multiset of memory reads
	AspWrites               // multiset of memory writes
	AspPortLog              // ordered complete port log
	AspHandlers             // RETN/RETI notifications
	AspAll      = 1<<iota - 1
)

// StepResult is what one lock-step execution produced.
type StepResult struct {
	Out      refz80.Outcome
	Exp      refz80.State
	Got      refz80.State
	Panic    interface{}
	RefPanic interface{}
}

// stepBoth sets the case up on both sides and executes one Step on each.
func (w *Worker) stepBoth(cs *Case) *StepResult {
	w.setup(cs)
	return w.stepBothNoSetup(cs)
}

func (w *Worker) setup(cs *Case) {
	w.imem.Reset()
	w.rmem.Reset()
	for _, p := range cs.Pokes {
		w.imem.Poke(p.Addr, p.Data...)
		w.rmem.Poke(p.Addr, p.Data...)
	}
	w.imem.Poke(cs.S.PC, cs.Bytes...)
	w.rmem.Poke(cs.S.PC, cs.Bytes...)
	w.iio.Reset()
	w.rio.Reset()
	w.iio.X, w.iio.Y, w.iio.Fixed = cs.IOX, cs.IOY, cs.IOFixed
	w.rio.X, w.rio.Y, w.rio.Fixed = cs.IOX, cs.IOY, cs.IOFixed
	w.retn.n, w.reti.n = 0, 0
	w.frame = w.frame[:0]
	toCPU(&cs.S, &w.cpu)
	w.cpu.Interrupt = nil
	w.cpu.BreakPoints = nil
	w.cpu.Memory = w.imem
	w.cpu.IO = w.iio
	w.cpu.RETNHandler, w.cpu.RETIHandler = &w.retn, &w.reti
	w.rio.Absent = false
	w.envReq = nil
	switch cs.Env {
	case 1:
		// a maskable request that must be refused (the lattice forces IFF1 clear): the Step must equal the
		// Step without a request and the very same request object must still be pending afterwards
		switch cs.S.IM {
		case 0:
			w.envReq = z80.IM0Interrupt(0xFF)
		case 2:
			w.envReq = z80.IM2Interrupt(0x40)
		default:
			w.envReq = z80.IM1Interrupt()
		}
		w.cpu.Interrupt = w.envReq
	case 2:
		// no IO device: reads give 0, writes go nowhere (memio.go / cpu.go ioIn, ioOut)
		w.cpu.IO = nil
		w.rio.Absent = true
	case 3:
		w.cpu.RETNHandler, w.cpu.RETIHandler = nil, nil
	}
}

func (w *Worker) stepBothNoSetup(cs *Case) *StepResult {
	w.curCase = cs
	res := &w.res
	res.Panic, res.RefPanic = nil, nil
	res.Exp = cs.S
	w.safeRef(res)
	w.safeImpl(res)
	res.Got = fromCPU(&w.cpu)
	return res
}

func (w *Worker) safeRef(res *StepResult) {
	defer w.recoverInto(&res.RefPanic)
	w.model.Step(&res.Exp, w.bus, &res.Out)
}

func (w *Worker) safeImpl(res *StepResult) {
	defer w.recoverInto(&res.Panic)
	defer w.live.leave()
	w.live.enter(w.curCase)
	w.cpu.Step()
}

func (w *Worker) recoverInto(p *interface{}) {
	if r := recover(); r != nil {
		*p = r
	}
}

func flagStr(f uint8) string {
	names := "SZ5H3PNC"
	s := ""
	for i := 0; i < 8; i++ {
		if f&(0x80>>uint(i)) != 0 {
			s += string(names[i])
		} else {
			s += "-"
		}
	}
	return fmt.Sprintf("%02X[%s]", f, s)
}

// compare evaluates the Step of cs under the given aspects and returns the
// list of differences (nil = conforms). pre is the pre-state.
func (w *Worker) compare(cs *Case, res *StepResult, aspects int) []string {
	d := w.diff[:0]
	if res.RefPanic != nil {
		d = append(d, fmt.Sprintf("reference model panicked: %v (framework error)", res.RefPanic))
		w.diff = d
		return d
	}
	if res.Panic != nil {
		d = append(d, fmt.Sprintf("Step panicked: %v", res.Panic))
		w.diff = d
		return d
	}
	exp, got, out := &res.Exp, &res.Got, &res.Out
	invalid := out.Inst.Kind == refz80.KInvalid
	if aspects&AspState != 0 && w.cpu.Interrupt == w.envReq {
		// fast path: equal under policy?
		e := *exp
		if ((got.F^e.F)&(got.F^out.FAlt))&out.FCompare == 0 {
			e.F = got.F
		}
		if got.IFF1 == out.IFF1Alt {
			e.IFF1 = got.IFF1
		}
		e.I, e.R = got.I, got.R
		if e == *got {
			aspects &^= AspState
		}
	}
	if aspects&AspState != 0 {
		r8 := func(n string, e, g uint8) {
			if e != g {
				d = append(d, fmt.Sprintf("%s: want %02X got %02X", n, e, g))
			}
		}
		r16 := func(n string, e, g uint16) {
			if e != g {
				d = append(d, fmt.Sprintf("%s: want %04X got %04X", n, e, g))
			}
		}
		r8("A", exp.A, got.A)
		// F under policy
		bad := ((got.F ^ exp.F) & (got.F ^ out.FAlt)) & out.FCompare
		if bad != 0 {
			if out.FAlt != exp.F {
				d = append(d, fmt.Sprintf("F: want %s (or per bit %s) got %s, wrong bits %02X (pre %s)", flagStr(exp.F), flagStr(out.FAlt), flagStr(got.F), bad, flagStr(cs.S.F)))
			} else {
				d = append(d, fmt.Sprintf("F: want %s got %s, wrong bits %02X (compared mask %02X, pre %s)", flagStr(exp.F), flagStr(got.F), bad, out.FCompare, flagStr(cs.S.F)))
			}
		}
		r8("B", exp.B, got.B)
		r8("C", exp.C, got.C)
		r8("D", exp.D, got.D)
		r8("E", exp.E, got.E)
		r8("H", exp.H, got.H)
		r8("L", exp.L, got.L)
		r8("A'", exp.A2, got.A2)
		r8("F'", exp.F2, got.F2)
		r8("B'", exp.B2, got.B2)
		r8("C'", exp.C2, got.C2)
		r8("D'", exp.D2, got.D2)
		r8("E'", exp.E2, got.E2)
		r8("H'", exp.H2, got.H2)
		r8("L'", exp.L2, got.L2)
		r16("IX", exp.IX, got.IX)
		r16("IY", exp.IY, got.IY)
		r16("SP", exp.SP, got.SP)
		r16("PC", exp.PC, got.PC)
		if got.IFF1 != exp.IFF1 && got.IFF1 != out.IFF1Alt {
			d = append(d, fmt.Sprintf("IFF1: want %v got %v", exp.IFF1, got.IFF1))
		}
		if got.IFF2 != exp.IFF2 {
			d = append(d, fmt.Sprintf("IFF2: want %v got %v", exp.IFF2, got.IFF2))
		}
		if got.IM != exp.IM {
			d = append(d, fmt.Sprintf("IM: want %d got %d", exp.IM, got.IM))
		}
		if got.Halt != exp.Halt {
			d = append(d, fmt.Sprintf("HALT: want %v got %v", exp.Halt, got.Halt))
		}
		if w.cpu.Interrupt != w.envReq {
			if w.envReq != nil {
				d = append(d, "the refused maskable request (IFF1 clear) did not stay pending unchanged")
			} else {
				d = append(d, "CPU.Interrupt became non-nil")
			}
		}
	}
	if aspects&AspI != 0 && got.I != exp.I {
		d = append(d, fmt.Sprintf("I: want %02X got %02X", exp.I, got.I))
	}
	if aspects&AspState != 0 {
		// the device fields belong to the embedder: a Step must leave them as they were
		if m, ok := w.cpu.Memory.(*obs.Mem); !ok || m != w.imem {
			d = append(d, "CPU.Memory was replaced during the Step")
		}
		if cs.Env != 2 {
			if io, ok := w.cpu.IO.(*obs.IO); !ok || io != w.iio {
				d = append(d, "CPU.IO was replaced during the Step")
			}
		} else if w.cpu.IO != nil {
			d = append(d, "CPU.IO was nil before the Step and is not afterwards")
		}
	}
	if aspects&AspR != 0 {
		if !invalid && got.R != exp.R && got.R != out.RAlt {
			d = append(d, fmt.Sprintf("R: want %02X got %02X (pre %02X, %d opcode fetches)", exp.R, got.R, cs.S.R, out.Inst.M1))
		}
	}
	if aspects&AspMem != 0 {
		if ok, a := w.imem.EqualContents(w.rmem); !ok {
			d = append(d, fmt.Sprintf("memory[%04X]: want %02X got %02X", a, w.rmem.Peek(a), w.imem.Peek(a)))
		}
	}
	if aspects&AspPortsOut != 0 && aspects&AspPortLog == 0 {
		var e, g []obs.PortAccess
		for _, p := range w.rio.Log {
			if p.Out {
				e = append(e, p)
			}
		}
		for _, p := range w.iio.Log {
			if p.Out {
				g = append(g, p)
			}
		}
		if !obs.SamePorts(e, g) {
			d = append(d, fmt.Sprintf("port writes: want %v got %v", fmtPorts(e), fmtPorts(g)))
		}
	}
	if aspects&AspReads != 0 {
		if !obs.SameMultiset(w.rmem.Reads, w.imem.Reads) {
			d = append(d, fmt.Sprintf("memory reads: want %s got %s", fmtAcc(w.rmem.Reads), fmtAcc(w.imem.Reads)))
		}
	}
	if aspects&AspWrites != 0 {
		if !obs.SameMultiset(w.rmem.Writes, w.imem.Writes) {
			d = append(d, fmt.Sprintf("memory writes: want %s got %s", fmtAcc(w.rmem.Writes), fmtAcc(w.imem.Writes)))
		}
	}
	if aspects&AspPortLog != 0 {
		if !obs.SamePorts(w.rio.Log, w.iio.Log) {
			d = append(d, fmt.Sprintf("port log: want %v got %v", fmtPorts(w.rio.Log), fmtPorts(w.iio.Log)))
		}
	}
	if aspects&AspHandlers != 0 && cs.Env != 3 {
		if w.retn.n != out.RETN || w.reti.n != out.RETI {
			d = append(d, fmt.Sprintf("handler notifications: want RETN=%d RETI=%d got RETN=%d RETI=%d", out.RETN, out.RETI, w.retn.n, w.reti.n))
		}
	}
	w.diff = d
	if len(d) == 0 {
		return nil
	}
	return d
}

func fmtAcc(a []obs.Access) string {
	s := "["
	for i, x := range a {
		if i > 0 {
			s += " "
		}
		s += fmt.Sprintf("%04X:%02X", x.Addr, x.Val)
	}
	return s + "]"
}

func fmtPorts(a []obs.PortAccess) string {
	s := "["
	for i, x := range a {
		if i > 0 {
			s += " "
		}
		dir := "in"
		if x.Out {
			dir = "out"
		}
		s += fmt.Sprintf("%s(%02X)=%02X", dir, x.Port, x.Val)
	}
	return s + "]"
}

func cloneStrings(d []string) []string { return append([]string{}, d...) }

func obsBackground(c *Ctx) *[65536]uint8 { return obs.NewBackground(c.Salt) }

var bgCtx = context.Background()
