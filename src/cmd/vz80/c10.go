package main

import (
	"bytes"
	"encoding/gob"
	"encoding/json"
	"fmt"
	"sync/atomic"

	z80 "github.com/koron-go/z80"
	"github.com/koron-go/z80/internal/verif/obs"
	"github.com/koron-go/z80/internal/verif/refz80"
	"github.com/koron-go/z80/internal/verif/sched"
)

// C10: execution is deterministic, captured by States+memory, and isolated
// per CPU. (a) BFS over snapshot points: for every program and every Step
// boundary k a fresh CPU rebuilt from copies of States, HALT, pending request,
// memory and device continues exactly like the original, Step for Step; the
// same CPU value reused for a different program at the same PCs behaves like
// a fresh one. (b) SCHED: two CPUs on their own memories run the same
// instruction at the same time with different data; every interleaving of
// their memory/port accesses is enumerated and each CPU must end exactly as
// in its solo run.
func init() {
	register("C10", checkC10)
	replayers["c10/snapshot"] = replayC10Snapshot
	replayers["c10/isolation"] = replayC10Isolation
	replayers["c10/firstuse"] = replayFirstUse
	replayers["c10/environment"] = replayEnvSense
}

type c10Prog struct {
	Name  string   `json:"name"`
	PC    uint16   `json:"pc"`
	Pokes []Poke   `json:"-"`
	Bytes string   `json:"bytes,omitempty"`
	Base  int      `json:"base"`
	Steps int      `json:"steps"`
	Req   []c10Req `json:"requests,omitempty"` // request raised before Step j
	K     int      `json:"snapshot_at"`
	NoIO  bool     `json:"no_io_device,omitempty"` // CPU.IO == nil
	Salt  uint32   `json:"salt"`
}

type c10Req struct {
	J    int `json:"before_step"`
	Kind int `json:"kind"` // 0 NMI 1 IM1 2 IM2(40) 3 IM0 RST 38
}

func c10MakeReq(k int) *z80.Interrupt {
	switch k {
	case 0:
		return z80.NMIInterrupt()
	case 1:
		return z80.IM1Interrupt()
	case 2:
		return z80.IM2Interrupt(0x40)
	}
	return z80.IM0Interrupt(0xFF)
}

type c10Machine struct {
	cpu *z80.CPU
	mem *obs.Mem
	io  *obs.IO
}

func newC10Machine(bg *[65536]uint8) *c10Machine {
	m := &c10Machine{cpu: &z80.CPU{}, mem: obs.NewMem(bg), io: &obs.IO{}}
	m.mem.Limit = 1000000 // deterministic watchdog
	m.cpu.Memory = m.mem
	m.cpu.IO = m.io
	return m
}

// cloneFrom rebuilds m as a *fresh* CPU value from copies of o's public state.
func (m *c10Machine) cloneFrom(o *c10Machine) { m.cloneFromOpt(o, true) }

// cloneFromOpt: withHalt=false leaves the halted indication out of the copy - it is not part of
// States, and the statement lets the outcome of a Step depend on States, the pending request and
// memory/ports only.
func (m *c10Machine) cloneFromOpt(o *c10Machine, withHalt bool) { m.cloneFromKind(o, withHalt, false) }

// cloneFromKind: byValue=true copies the CPU *value* (fork := *cpu) instead of building a fresh CPU from
// States; the copy gets its own memory and device. A plain struct copy is ordinary Go usage for taking
// a snapshot, and a copy that keeps pointers into the original (or shares a lazily built table with
// it) does not "stay equal step for step".
func (m *c10Machine) cloneFromKind(o *c10Machine, withHalt, byValue bool) {
	m.mem.CopyFrom(o.mem)
	// the device answers independently of its history (Fixed), so a copy is its parameters
	*m.io = obs.IO{X: o.io.X, Y: o.io.Y, Fixed: o.io.Fixed}
	fresh := &z80.CPU{States: o.cpu.States, Memory: m.mem, IO: m.io}
	if withHalt {
		fresh.HALT = o.cpu.HALT
	}
	if o.cpu.IO == nil {
		fresh.IO = nil
	}
	if byValue {
		cp := *o.cpu
		cp.Memory, cp.IO = fresh.Memory, fresh.IO
		cp.Interrupt = nil
		fresh = &cp
	}
	if o.cpu.Interrupt != nil {
		cp := *o.cpu.Interrupt
		cp.Data = append([]uint8{}, o.cpu.Interrupt.Data...)
		if o.cpu.Interrupt.Data == nil {
			cp.Data = nil
		}
		fresh.Interrupt = &cp
	}
	m.cpu = fresh
}

func (m *c10Machine) load(p *c10Prog) {
	m.mem.Reset()
	for _, pk := range p.Pokes {
		m.mem.Poke(pk.Addr, pk.Data...)
	}
	*m.io = obs.IO{X: 0x42, Fixed: true} // device answer independent of history, so a copy of the device is trivial
	base := baseVector(p.Base)
	s := base.S
	s.PC, s.SP = p.PC, 0xF000
	s.IFF1, s.IFF2, s.IM = true, true, 1
	s.I = 0x20
	m.cpu = &z80.CPU{Memory: m.mem, IO: m.io}
	if p.NoIO {
		m.cpu.IO = nil
	}
	toCPU(&s, m.cpu)
}

type c10Snap struct {
	st   z80.States
	halt bool
	pend bool
	sum  uint64
}

func c10Digest(m *c10Machine) c10Snap {
	h := uint64(1469598103934665603)
	for _, a := range m.mem.Dirty() {
		h = fnv(fnv(fnv(h, uint8(a)), uint8(a>>8)), m.mem.Peek(a))
	}
	return c10Snap{m.cpu.States, m.cpu.HALT, m.cpu.Interrupt != nil, h}
}

// c10Snapshot checks one program: original trajectory, then for every k (or
// only p.K if only >= 0) a rebuilt CPU must follow it.
func c10Snapshot(a, b *c10Machine, p *c10Prog, only int) ([]string, int) {
	a.load(p)
	traj := make([]c10Snap, 0, p.Steps+1)
	reqAt := map[int]int{}
	for _, r := range p.Req {
		reqAt[r.J] = r.Kind
	}
	steps := 0
	// run the original, keeping its trajectory
	ignoreHalt := false
	run := func(m *c10Machine, from int, cmp bool) []string {
		for j := from; j < p.Steps; j++ {
			if k, ok := reqAt[j]; ok {
				m.cpu.Interrupt = c10MakeReq(k)
			}
			if pan := c02Step(m.cpu); pan != nil {
				return []string{fmt.Sprintf("panic at Step %d: %v", j, pan)}
			}
			steps++
			d := c10Digest(m)
			if cmp && ignoreHalt {
				d.halt = traj[j+1].halt
			}
			if !cmp {
				traj = append(traj, d)
			} else if d != traj[j+1] {
				x := fromCPU(m.cpu)
				y := fromCPU(&z80.CPU{States: traj[j+1].st, HALT: traj[j+1].halt})
				return []string{fmt.Sprintf("rebuilt at boundary %d, after Step %d: rebuilt CPU %v pending=%v ; original %v pending=%v ; memory digest equal=%v", from, j, stateMap(&x), d.pend, stateMap(&y), traj[j+1].pend, d.sum == traj[j+1].sum)}
			}
		}
		return nil
	}
	traj = append(traj, c10Digest(a))
	if d := run(a, 0, false); d != nil {
		return d, steps
	}
	// determinism: a second fresh machine from the same initial state follows the trajectory
	b.load(p)
	if d := run(b, 0, true); d != nil {
		return append([]string{"two CPUs started from equal state and memory diverged:"}, d...), steps
	}
	// snapshots: re-run the original up to k, rebuild, continue
	for k := 1; k < p.Steps; k++ {
		if only >= 0 && k != only {
			continue
		}
		a.load(p)
		for j := 0; j < k; j++ {
			if kk, ok := reqAt[j]; ok {
				a.cpu.Interrupt = c10MakeReq(kk)
			}
			c02Step(a.cpu)
			steps++
		}
		b.cloneFrom(a)
		if d := run(b, k, true); d != nil {
			return d, steps
		}
		// a by-value copy of the CPU struct (own memory and device)
		b.cloneFromKind(a, true, true)
		if d := run(b, k, true); d != nil {
			return append([]string{"snapshot taken as a by-value copy of the CPU struct (fork := *cpu) with its own memory copy:"}, d...), steps
		}
		// the same without copying the halted indication (compared on everything but that field)
		b.cloneFromOpt(a, false)
		ignoreHalt = true
		d := run(b, k, true)
		ignoreHalt = false
		if d != nil {
			return append([]string{"rebuilt from States + pending request + memory only (halted indication not copied):"}, d...), steps
		}
	}
	return nil, steps
}

func c10StructuredProgs() []c10Prog {
	hINT := Poke{0x0038, []uint8{0xF5, 0x0C, 0xF1, 0xFB, 0xED, 0x4D}}
	hNMI := Poke{0x0066, []uint8{0xF5, 0x0C, 0xF1, 0xED, 0x45}}
	hIM2 := Poke{0x0400, []uint8{0xF5, 0x0C, 0xF1, 0xFB, 0xED, 0x4D}}
	vec := Poke{0x2040, []uint8{0x00, 0x04}}
	h := []Poke{hINT, hNMI, hIM2, vec}
	mk := func(name string, code []uint8, steps int, extra ...Poke) c10Prog {
		return c10Prog{Name: name, PC: 0x0100, Pokes: append(append([]Poke{{0x0100, code}}, extra...), h...), Steps: steps}
	}
	progs := []c10Prog{
		mk("self-modifying: rewrite an executed address and jump back", []uint8{0x3C, 0x3E, 0x3D, 0x32, 0x00, 0x01, 0xC3, 0x00, 0x01}, 12),
		mk("LDIR over its own code", []uint8{0x01, 0x08, 0x00, 0x21, 0x00, 0x01, 0x11, 0x09, 0x01, 0xED, 0xB0, 0x76}, 14),
		mk("LDDR overlapping", []uint8{0x01, 0x05, 0x00, 0x21, 0x12, 0x60, 0x11, 0x13, 0x60, 0xED, 0xB8, 0x76}, 10),
		mk("CPIR", []uint8{0x01, 0x09, 0x00, 0x21, 0x00, 0x01, 0x3E, 0xB1, 0xED, 0xB1, 0x76}, 16),
		mk("OTIR/INIR", []uint8{0x06, 0x03, 0x0E, 0x10, 0x21, 0x30, 0x60, 0xED, 0xB3, 0x06, 0x02, 0xED, 0xB2, 0x76}, 12),
		mk("DJNZ loop", []uint8{0x06, 0x04, 0x3C, 0x10, 0xFD, 0x76}, 12),
		mk("CALL/RET, PUSH/POP, EX (SP)", []uint8{0xCD, 0x00, 0x02, 0xE5, 0xDD, 0xE3, 0xE1, 0x76}, 9, Poke{0x0200, []uint8{0xC5, 0xD1, 0xC9}}),
		mk("EI;DI;EI;HALT;HALT", []uint8{0xFB, 0xF3, 0xFB, 0x76}, 8),
		mk("prefix chains", []uint8{0xDD, 0xDD, 0xFD, 0xDD, 0x21, 0x34, 0x12, 0xFD, 0xCB, 0x05, 0xC6, 0xED, 0x00, 0x76}, 9),
		mk("IM switches", []uint8{0xED, 0x46, 0xED, 0x56, 0xED, 0x5E, 0xED, 0x57, 0xED, 0x5F, 0x76}, 8),
		mk("DAA chain", []uint8{0x3E, 0x99, 0xC6, 0x01, 0x27, 0xD6, 0x02, 0x27, 0x3F, 0x27, 0x76}, 9),
		mk("EXX / EX AF", []uint8{0x08, 0xD9, 0x3C, 0x04, 0x08, 0xD9, 0x76}, 8),
		mk("parked on HALT, then LD A,R after an interrupt", []uint8{0xFB, 0x76, 0xED, 0x5F, 0x76}, 14),
		mk("HALT; (jump out by host is not modelled) HALT x6", []uint8{0x76}, 6),
	}
	noio := []c10Prog{
		mk("no IO device: IN A,(10); OUT (10),A; IN A,(10); OUT (C),B; IN E,(C)", []uint8{0xDB, 0x10, 0x3E, 0x5A, 0xD3, 0x10, 0xDB, 0x10, 0xED, 0x41, 0xED, 0x58, 0x76}, 8),
		mk("no IO device: OTIR; INIR", []uint8{0x06, 0x03, 0x0E, 0x10, 0x21, 0x30, 0x60, 0xED, 0xB3, 0x06, 0x02, 0xED, 0xB2, 0x76}, 12),
	}
	for i := range noio {
		noio[i].NoIO = true
	}
	progs = append(progs, noio...)
	// the same programs with each kind of request at a few boundaries
	n := len(progs)
	for i := 0; i < n; i++ {
		for kind := 0; kind < 4; kind++ {
			for _, j := range []int{0, 2, 5} {
				q := progs[i]
				q.Name = fmt.Sprintf("%s + request kind %d before Step %d", q.Name, kind, j)
				q.Req = []c10Req{{J: j, Kind: kind}}
				q.Steps += 8
				if kind == 3 {
					q.Pokes = append(append([]Poke{}, q.Pokes...), Poke{0x00FE, []uint8{0xED, 0x46}}) // unused
				}
				progs = append(progs, q)
			}
		}
	}
	return progs
}

// ---- isolation under the controlled scheduler ------------------------------

type c10Iso struct {
	Enc   string `json:"encoding"`
	Bytes string `json:"bytes"`
	Sched []int  `json:"schedule,omitempty"`
	Salt  uint32 `json:"salt"`
}

// c10IsoRun runs encoding e on two CPUs with different data under schedule
// prefix; returns the final digests of both and the execution.
func c10IsoBody(bg *[65536]uint8, e *Enc, results *[2]refz80.State, logs *[2]string, nsteps int) func(s *sched.Scheduler) {
	return c10IsoBodyReq(bg, e, results, logs, nsteps, -1)
}

// c10IsoBodyReq: as c10IsoBody, with a request of kind reqKind (see c10IsoReq) pending on both CPUs (-1: none).
func c10IsoBodyReq(bg *[65536]uint8, e *Enc, results *[2]refz80.State, logs *[2]string, nsteps int, reqKind int) func(s *sched.Scheduler) {
	return c10IsoBodyVar(bg, e, results, logs, nsteps, reqKind, 0)
}

// Variants of the two-CPU acceptance scenario:
// 0 each CPU has its own request object;
// 1 both CPUs are handed the *same* request object (one interrupt line wired to two CPUs): the object is
//
//	input, whatever an implementation keeps in it must not connect the CPUs;
//
// 2 CPU 1 is a by-value copy of CPU 0 (fork := *cpu, own memory and device) taken after CPU 0 has served a
//
//	request of the same kind: whatever the first acceptance left in the CPU value is now in both.
const c10IsoVariants = 3

func c10IsoBodyVar(bg *[65536]uint8, e *Enc, results *[2]refz80.State, logs *[2]string, nsteps int, reqKind int, variant int) func(s *sched.Scheduler) {
	return func(s *sched.Scheduler) {
		var ws [2]*c10Machine
		var shared *z80.Interrupt
		for t := 0; t < 2; t++ {
			w := newC10Machine(bg)
			ws[t] = w
			p := baseVector(t)
			var cs Case
			materialise(&p, e, &cs)
			if variant == 2 && t == 1 {
				*w.cpu = *ws[0].cpu
				w.cpu.Memory, w.cpu.IO = w.mem, w.io
			}
			// same handler on both CPUs, different data
			w.mem.Poke(cs.S.PC, cs.Bytes...)
			for i := 1; i < nsteps; i++ {
				w.mem.Poke(cs.S.PC+uint16(i*len(cs.Bytes)), cs.Bytes...)
			}
			*w.io = obs.IO{X: uint8(0x30 + t), Y: 0x35}
			if variant == 2 && t == 0 && reqKind >= 0 {
				// warm-up: CPU 0 serves one request of this kind, then everything visible is reset
				toCPU(&cs.S, w.cpu)
				w.cpu.IFF1, w.cpu.IFF2 = true, true
				w.cpu.IM, w.cpu.Interrupt = c10IsoReq(reqKind, 1)
				liveStep(w.cpu)
				w.cpu.Interrupt = nil
				w.cpu.HALT = false
				w.mem.Reset()
				w.io.Reset()
				w.mem.Poke(cs.S.PC, cs.Bytes...)
				for i := 1; i < nsteps; i++ {
					w.mem.Poke(cs.S.PC+uint16(i*len(cs.Bytes)), cs.Bytes...)
				}
			}
			toCPU(&cs.S, w.cpu)
			if reqKind >= 0 {
				w.cpu.IFF1, w.cpu.IFF2 = true, true
				w.cpu.IM, w.cpu.Interrupt = c10IsoReq(reqKind, t)
				if variant == 1 {
					if t == 0 {
						shared = w.cpu.Interrupt
					}
					w.cpu.Interrupt = shared
				}
				w.mem.Poke(uint16(w.cpu.IR.Hi)<<8|0x40, uint8(0x10+t), 0x20)
			}
		}
		for t := 0; t < 2; t++ {
			t := t
			w := ws[t]
			w.mem.Hook = func(bool, uint16) { s.Point("mem") }
			w.io.Hook = func(bool, uint8) { s.Point("io") }
			s.Go(fmt.Sprintf("cpu%d", t), func() {
				for i := 0; i < nsteps; i++ {
					liveStep(w.cpu)
					if i+1 < nsteps {
						s.Point("between Steps")
					}
				}
				results[t] = fromCPU(w.cpu)
				logs[t] = fmtAcc(w.mem.Reads) + fmtAcc(w.mem.Writes) + fmtPorts(w.io.Log)
			})
		}
	}
}

// c10IsoReq returns the interrupt mode and a request of the given kind for CPU t
// (different data per CPU where the kind has data).
func c10IsoReq(kind, t int) (int, *z80.Interrupt) {
	switch kind {
	case 0:
		return 1, z80.NMIInterrupt()
	case 1:
		return 1, z80.IM1Interrupt()
	case 2:
		return 2, z80.IM2Interrupt(0x40)
	case 3:
		return 0, z80.IM0Interrupt(uint8(0xCF + 0x10*t)) // RST 08 / RST 18
	case 4:
		return 0, z80.IM0Interrupt(0xCD, uint8(0x34+t), 0x12) // CALL 1234 / CALL 1235
	case 5:
		return 0, z80.IM0Interrupt(uint8(0x3C + t)) // INC A / DEC A
	}
	return 0, z80.IM0Interrupt(0x21, uint8(0x11*(t+1)), 0x22) // LD HL,nn
}

const c10IsoReqKinds = 7

func checkC10(c *Ctx) {
	bg := obsBackground(c)
	set, err := implementedSet(c)
	if err != nil {
		fmt.Println("framework error:", err)
		c.Capped("framework error: " + err.Error())
		return
	}
	// (a) snapshot / determinism
	var progs []c10Prog
	for i := range set.Encs {
		e := &set.Encs[i]
		for b := 0; b < 2; b++ {
			p := baseVector(b)
			var cs Case
			materialise(&p, e, &cs)
			code := append(append(append([]uint8{}, cs.Bytes...), cs.Bytes...), cs.Bytes...)
			progs = append(progs, c10Prog{Name: "3x " + e.Name, PC: p.S.PC, Pokes: []Poke{{p.S.PC, code}}, Bytes: hexBytes(code), Base: b, Steps: 3})
		}
	}
	nEncProgs := len(progs)
	progs = append(progs, c10StructuredProgs()...)
	c.Rule = fmt.Sprintf("(a) %d programs: for every implemented encoding the program enc;enc;enc from 2 base states, plus %d structured programs (self-modifying code, LDIR over its own code, block instructions, loops, calls, prefix chains, IM switches, each also with NMI/IM1/IM2/IM0 requests at 3 boundaries); for each program of N Steps: a second fresh CPU from the same initial state, and for EVERY boundary k in 1..N-1 a fresh CPU value rebuilt from copies of States, HALT, the pending request, memory and device, must follow the original Step for Step (States, HALT, pending, memory digest after every Step); one CPU value reused across all programs must behave like a fresh one; all ordered pairs enc1;enc2 of implemented encodings (quick: every 4th as enc1) with a snapshot between the two instructions. (b) for every implemented encoding: 2 CPUs on their own memories execute it at the same time with different register/memory data, scheduling points inside every memory/port callback, ALL interleavings enumerated by the controlled scheduler (no preemption bound), plus 2-Step programs with a point between Steps at preemption bound 2; each CPU's final state and access trace must equal its solo run; both CPUs accepting a request at the same time (7 request kinds) in 3 variants: own request objects, ONE request object handed to both CPUs, CPU 1 a by-value copy of CPU 0 made after CPU 0 served such a request; two CPUs without IO device. (c) first-use pass: every implemented encoding as the very first instruction of 2 fresh processes, then swept against refz80 in that process (no dependence on process history); a recovery scenario in a process of its own (a device panic during a mode-0 instruction on one CPU, recovered; then both CPUs accept mode-0 requests: each reaches its own memory only, the process survives); States round-trips through encoding/json (into a States value that held other data) and encoding/gob; the request constructors give every caller storage of its own (all 256 bytes; in-place edits and appends do not reach other requests). Non-trivial: snapshots at k>=1 and schedules with at least one context switch (counted).", len(progs), len(progs)-nEncProgs)
	c.Bound = "every snapshot point; all interleavings of 2 single-Step CPUs; 2-Step programs at preemption bound 2 (thorough: 3)"
	type pair struct{ a, b *c10Machine }
	pairs := make([]*pair, 16)
	var evals, steps [16 * 8]int64
	parallel(int64(len(progs)), 8, 16, func(wi int, lo, hi int64) {
		if pairs[wi] == nil {
			pairs[wi] = &pair{newC10Machine(bg), newC10Machine(bg)}
		}
		pr := pairs[wi]
		for i := lo; i < hi; i++ {
			p := &progs[i]
			p.Salt = c.Salt
			d, n := c10Snapshot(pr.a, pr.b, p, -1)
			evals[wi*8] += int64(p.Steps)
			steps[wi*8] += int64(n)
			if d != nil {
				c.Report("c10/snapshot:"+p.Name, i, "", p, cloneStrings(append([]string{"program " + p.Name}, d...)))
			}
		}
	}, nil)
	// all ordered pairs of implemented encodings: enc1 ; enc2 with a snapshot between them. Whatever
	// enc1 leaves behind outside States/memory (a latch, a prefix flag, a cached decode) makes the rebuilt
	// CPU execute enc2 differently from the original.
	pairEvery := 1
	if c.Quick() {
		pairEvery = 4 // quick: every 4th encoding as the first instruction (all as the second)
	}
	var pairN [16 * 8]int64
	nenc := len(set.Encs)
	codes := make([][]uint8, nenc)
	for i := range set.Encs {
		p := baseVector(0)
		var cs Case
		materialise(&p, &set.Encs[i], &cs)
		codes[i] = append([]uint8{}, cs.Bytes...)
	}
	parallel(int64(nenc), 1, 16, func(wi int, lo, hi int64) {
		if pairs[wi] == nil {
			pairs[wi] = &pair{newC10Machine(bg), newC10Machine(bg)}
		}
		a, b := pairs[wi].a, pairs[wi].b
		for i := lo; i < hi; i++ {
			if int(i)%pairEvery != 0 {
				continue
			}
			prog := c10Prog{Name: "pair", PC: 0x0100, Base: 0, Steps: 2}
			for j := 0; j < nenc; j++ {
				a.mem.Reset()
				a.mem.Poke(0x0100, codes[i]...)
				*a.io = obs.IO{X: 0x42, Fixed: true}
				bs := baseVector(0)
				bs.S.PC, bs.S.SP = 0x0100, 0xF000
				a.cpu = &z80.CPU{Memory: a.mem, IO: a.io}
				toCPU(&bs.S, a.cpu)
				if c02Step(a.cpu) != nil {
					break
				}
				a.mem.Poke(a.cpu.PC, codes[j]...)
				if j%2 == 0 {
					b.cloneFrom(a)
				} else {
					b.cloneFromKind(a, true, true) // every other pair: snapshot as a by-value copy of the CPU struct
				}
				pa, pb := c02Step(a.cpu), c02Step(b.cpu)
				pairN[wi*8]++
				if pa != nil || pb != nil || c10Digest(a) != c10Digest(b) {
					x, y := fromCPU(a.cpu), fromCPU(b.cpu)
					prog.Name = fmt.Sprintf("pair %s ; %s", set.Encs[i].Name, set.Encs[j].Name)
					prog.Bytes = hexBytes(codes[i]) + " ; " + hexBytes(codes[j])
					c.Report("c10/snapshot:pair:"+set.Encs[i].Name, i*1000+int64(j), "", prog, []string{fmt.Sprintf("%s then %s: the CPU rebuilt from States+memory after the first instruction executes the second differently: original %v (panic %v) ; rebuilt %v (panic %v)", set.Encs[i].Name, set.Encs[j].Name, stateMap(&x), pa, stateMap(&y), pb)})
					break
				}
			}
		}
	}, nil)
	var pairTotal int64
	for i := range pairN {
		pairTotal += pairN[i]
	}
	c.Set("instruction_pairs_with_snapshot", pairTotal)
	// reuse of one CPU value across different programs at the same PCs
	reuseSteps := c10Reuse(c, bg, progs[:nEncProgs])
	var snapEvals, snapSteps int64
	for i := range evals {
		snapEvals += evals[i]
		snapSteps += steps[i]
	}
	c.Set("snapshot_points", snapEvals)
	c.Set("snapshot_steps", snapSteps+reuseSteps)
	// (b) isolation: all interleavings
	var isoExecs, isoPoints, isoSwitched int64
	var encs []*Enc
	for i := range set.Encs {
		encs = append(encs, &set.Encs[i])
	}
	var capped int32
	bound2 := 2
	if !c.Quick() {
		bound2 = 3
	}
	var counters [16 * 8]int64
	var pts [16 * 8]int64
	var sw [16 * 8]int64
	parallel(int64(len(encs)), 4, 16, func(wi int, lo, hi int64) {
		for ei := lo; ei < hi; ei++ {
			e := encs[ei]
			for _, nsteps := range []int{1, 2} {
				if nsteps == 2 && c.Quick() && ei%4 != 0 {
					continue
				}
				var solo [2]refz80.State
				var sololog [2]string
				// solo reference: schedule "thread 0 to completion, then thread 1" (choice 0 everywhere)
				x0 := sched.Execute(nil, 4000, c10IsoBody(bg, e, &solo, &sololog, nsteps))
				if pv, tr := x0.Panic(); pv != nil {
					c.Report("c10/isolation:"+e.Name, ei, "", c10Iso{Enc: e.Name, Salt: c.Salt}, []string{fmt.Sprintf("panic: %v", pv), tr})
					continue
				}
				var res [2]refz80.State
				var logs [2]string
				bound := -1
				if nsteps == 2 {
					bound = bound2
				}
				failed := false
				st := sched.Explore(bound, 4000, 200000, c10IsoBody(bg, e, &res, &logs, nsteps), func(x *sched.Scheduler) bool {
					if pv, tr := x.Panic(); pv != nil {
						c.Report("c10/isolation:"+e.Name, ei, "", c10Iso{Enc: e.Name, Sched: x.Choices(), Salt: c.Salt}, []string{fmt.Sprintf("panic under schedule %v: %v", x.Choices(), pv), tr})
						failed = true
						return false
					}
					if x.Deadlock || x.HorizonHit || x.Diverged != "" {
						c.Report("c10/isolation:"+e.Name, ei, "", c10Iso{Enc: e.Name, Sched: x.Choices(), Salt: c.Salt}, []string{fmt.Sprintf("framework: deadlock=%v horizon=%v diverged=%q", x.Deadlock, x.HorizonHit, x.Diverged)})
						failed = true
						return false
					}
					for _, s := range x.Steps {
						if s.Chosen != 0 {
							sw[wi*8]++
							if ei%311 == 5 && sw[wi*8]%7 == 3 {
								c.Sample(map[string]interface{}{"isolation": c10Iso{Enc: e.Name, Bytes: hexBytes(e.Fixed), Sched: x.Choices(), Salt: c.Salt}, "cpu0_trace": logs[0], "cpu1_trace": logs[1]})
							}
							break
						}
					}
					for t := 0; t < 2; t++ {
						if res[t] != solo[t] || logs[t] != sololog[t] {
							c.Report("c10/isolation:"+e.Name, ei, "", c10Iso{Enc: e.Name, Sched: x.Choices(), Salt: c.Salt},
								[]string{fmt.Sprintf("encoding %s (x%d) on 2 CPUs, schedule %v: CPU %d ends differently from its solo run", e.Name, nsteps, x.Choices(), t),
									fmt.Sprintf("solo:        %v %s", stateMap(&solo[t]), sololog[t]), fmt.Sprintf("interleaved: %v %s", stateMap(&res[t]), logs[t])})
							failed = true
							return false
						}
					}
					return true
				})
				counters[wi*8] += int64(st.Executions)
				pts[wi*8] += int64(st.Points)
				if st.CapHit {
					c.Capped("execution cap for " + e.Name)
				}
				if failed {
					break
				}
			}
			if c.TimeUp() {
				if atomic.CompareAndSwapInt32(&capped, 0, 1) {
					c.Capped("time cap reached")
				}
				return
			}
		}
	}, func() bool { return atomic.LoadInt32(&capped) != 0 })
	// both CPUs accept an interrupt at the same time (NMI, IM1, IM2, mode-0 RST / CALL / INC / LD with
	// different request data), followed by the first instruction at the target: all interleavings
	nop := buildEnc([]uint8{0x00})
	for kv := 0; kv < c10IsoReqKinds*c10IsoVariants; kv++ {
		kind, variant := kv%c10IsoReqKinds, kv/c10IsoReqKinds
		var solo, res [2]refz80.State
		var sololog, logs [2]string
		sched.Execute(nil, 4000, c10IsoBodyVar(bg, &nop, &solo, &sololog, 2, kind, variant))
		st := sched.Explore(-1, 4000, 400000, c10IsoBodyVar(bg, &nop, &res, &logs, 2, kind, variant), func(x *sched.Scheduler) bool {
			if pv, tr := x.Panic(); pv != nil {
				c.Report(fmt.Sprintf("c10/isolation:request-kind-%d", kv), int64(kv), "", c10Iso{Enc: fmt.Sprintf("request kind %d", kv), Sched: x.Choices(), Salt: c.Salt}, []string{fmt.Sprintf("panic under schedule %v (variant %d): %v", x.Choices(), variant, pv), tr})
				return false
			}
			for _, s := range x.Steps {
				if s.Chosen != 0 {
					sw[0]++
					break
				}
			}
			for t := 0; t < 2; t++ {
				if res[t] != solo[t] || logs[t] != sololog[t] {
					c.Report(fmt.Sprintf("c10/isolation:request-kind-%d", kv), int64(kv), "", c10Iso{Enc: fmt.Sprintf("request kind %d", kv), Sched: x.Choices(), Salt: c.Salt},
						[]string{fmt.Sprintf("2 CPUs accepting a request of kind %d at the same time (0 NMI, 1 IM1, 2 IM2, 3 mode-0 RST, 4 mode-0 CALL, 5 mode-0 INC/DEC A, 6 mode-0 LD HL,nn; variant %d: 0 own request objects, 1 one request object handed to both CPUs, 2 CPU 1 is a by-value copy of CPU 0 made after CPU 0 served such a request), schedule %v: CPU %d ends differently from its solo run", kind, variant, x.Choices(), t),
							fmt.Sprintf("solo:        %v %s", stateMap(&solo[t]), sololog[t]), fmt.Sprintf("interleaved: %v %s", stateMap(&res[t]), logs[t])})
					return false
				}
			}
			return true
		})
		counters[0] += int64(st.Executions)
		pts[0] += int64(st.Points)
	}
	// two CPUs without an IO device (CPU.IO == nil) doing port I/O at the same time: OUT (10),A ; IN A,(10) ; OUT (C),B ; IN E,(C)
	{
		code := []uint8{0xD3, 0x10, 0xDB, 0x10, 0xED, 0x41, 0xED, 0x58}
		body := func(results *[2]refz80.State) func(s *sched.Scheduler) {
			return func(s *sched.Scheduler) {
				for t := 0; t < 2; t++ {
					t := t
					w := newC10Machine(bg)
					p := baseVector(t)
					p.S.PC = 0x0100
					w.mem.Poke(0x0100, code...)
					toCPU(&p.S, w.cpu)
					w.cpu.IO = nil
					w.mem.Hook = func(bool, uint16) { s.Point("mem") }
					s.Go(fmt.Sprintf("cpu%d", t), func() {
						for i := 0; i < 4; i++ {
							liveStep(w.cpu)
							s.Point("between Steps")
						}
						results[t] = fromCPU(w.cpu)
					})
				}
			}
		}
		var solo, res [2]refz80.State
		sched.Execute(nil, 4000, body(&solo))
		st := sched.Explore(3, 4000, 400000, body(&res), func(x *sched.Scheduler) bool {
			if pv, tr := x.Panic(); pv != nil {
				c.Report("c10/isolation:no-io-device", 0, "", c10Iso{Enc: "no IO device", Sched: x.Choices(), Salt: c.Salt}, []string{fmt.Sprintf("panic: %v", pv), tr})
				return false
			}
			for t := 0; t < 2; t++ {
				if res[t] != solo[t] {
					c.Report("c10/isolation:no-io-device", 0, "", c10Iso{Enc: "no IO device", Bytes: hexBytes(code), Sched: x.Choices(), Salt: c.Salt},
						[]string{fmt.Sprintf("2 CPUs without IO device running OUT (10),A; IN A,(10); OUT (C),B; IN E,(C), schedule %v: CPU %d ends differently from its solo run: solo %v interleaved %v", x.Choices(), t, stateMap(&solo[t]), stateMap(&res[t]))})
					return false
				}
			}
			return true
		})
		counters[0] += int64(st.Executions)
		pts[0] += int64(st.Points)
	}
	for i := range counters {
		isoExecs += counters[i]
		isoPoints += pts[i]
		isoSwitched += sw[i]
	}
	c.Set("isolation_schedules", isoExecs)
	c.Set("isolation_points", isoPoints)
	snapEvals += pairTotal
	snapSteps += 3 * pairTotal
	c.Evaluations = snapEvals + isoExecs
	c.Nontrivial = snapEvals + isoSwitched
	c.States = snapEvals + isoPoints
	c.Transitions = snapSteps + reuseSteps + isoPoints
	c.Traces = snapEvals + isoExecs
	{
		// the outcome of a Step depends on States, request, memory and ports - not on what the process executed first
		var all []*Enc
		for i := range set.Encs {
			all = append(all, &set.Encs[i])
		}
		runFirstUse(c, "c10/firstuse", all)
		runEnvSense(c, "c10/environment")
		c06Constructors(c)
		runRecoverScenario(c, "c10/recovery")
		c10Serialise(c)
	}
	c.Exhaustive = true
	c.Sample(c10Prog{Name: progs[nEncProgs].Name, PC: 0x0100, Steps: progs[nEncProgs].Steps, K: 5})
	c.Assume("the scheduler explores sequentially consistent interleavings at memory/port callback granularity; unsynchronised accesses to package-level state between callbacks are the subject of the auxiliary free-running -race pass (bin/check C10 runs it, labelled sampling)")
	c.Assume("the device used for snapshots answers independently of its history, so copying it is trivial")
}

// c10Reuse: one CPU value is reused for all programs in sequence (only States,
// Memory contents are reset); it must behave like a fresh CPU every time.
func c10Reuse(c *Ctx, bg *[65536]uint8, progs []c10Prog) int64 {
	reused := newC10Machine(bg)
	fresh := newC10Machine(bg)
	var n int64
	for i := range progs {
		p := &progs[i]
		fresh.load(p)
		// reuse: keep the same *z80.CPU value
		cpu := reused.cpu
		reused.load(p)
		*cpu = z80.CPU{States: reused.cpu.States, Memory: reused.mem, IO: reused.io}
		reused.cpu = cpu
		for j := 0; j < p.Steps; j++ {
			c02Step(fresh.cpu)
			c02Step(reused.cpu)
			n++
			if c10Digest(fresh) != c10Digest(reused) {
				x, y := fromCPU(fresh.cpu), fromCPU(reused.cpu)
				c.Report("c10/snapshot:reuse", int64(i), "", p, []string{fmt.Sprintf("program %s: a CPU value used before for other programs diverges from a fresh CPU at Step %d: fresh %v reused %v", p.Name, j, stateMap(&x), stateMap(&y))})
				return n
			}
		}
	}
	return n
}

func replayC10Snapshot(c *Ctx, raw []byte) []string {
	return []string{"snapshot replays are re-run by `bin/check C10` (programs are generated from the implemented set); see the diff in the file"}
}

func replayC10Isolation(c *Ctx, raw []byte) []string {
	var iso c10Iso
	if err := json.Unmarshal(raw, &iso); err != nil {
		return []string{"bad replay file"}
	}
	for _, e := range allEncodings() {
		if e.Name != iso.Enc {
			continue
		}
		e := e
		bg := obs.NewBackground(iso.Salt)
		for _, nsteps := range []int{1, 2} {
			var solo, res [2]refz80.State
			var sololog, logs [2]string
			sched.Execute(nil, 4000, c10IsoBody(bg, &e, &solo, &sololog, nsteps))
			x := sched.Execute(iso.Sched, 4000, c10IsoBody(bg, &e, &res, &logs, nsteps))
			if x.Diverged != "" {
				continue
			}
			for t := 0; t < 2; t++ {
				if res[t] != solo[t] || logs[t] != sololog[t] {
					return []string{fmt.Sprintf("schedule %v (x%d): CPU %d differs from its solo run", iso.Sched, nsteps, t)}
				}
			}
		}
		return nil
	}
	return []string{"unknown encoding"}
}

// c10Serialise: "a CPU rebuilt from copies of States ..." - a copy made through encoding/json or encoding/gob
// is a copy. States round-trips through both into a States value that held other data before (a save-state
// loaded into a machine in use): every field takes the saved value, false and 0 included.
func c10Serialise(c *Ctx) {
	var n int64
	for k := 0; k < 6; k++ {
		var st z80.States
		if k < 4 {
			b := baseVector(k)
			var cpu z80.CPU
			toCPU(&b.S, &cpu)
			st = cpu.States
		}
		if k == 4 {
			st.IFF1, st.IM = true, 2 // the rest zero
		}
		// k == 5: all zero
		for _, codec := range []string{"json", "gob"} {
			dirtyBase := baseVector((k + 1) % 4)
			var dcpu z80.CPU
			toCPU(&dirtyBase.S, &dcpu)
			dirty := dcpu.States
			dirty.IFF1, dirty.IFF2, dirty.IM = true, true, 2
			var err error
			switch codec {
			case "json":
				var raw []byte
				if raw, err = json.Marshal(st); err == nil {
					err = json.Unmarshal(raw, &dirty)
				}
			case "gob":
				var buf bytes.Buffer
				if err = gob.NewEncoder(&buf).Encode(st); err == nil {
					fresh := z80.States{}
					if err = gob.NewDecoder(&buf).Decode(&fresh); err == nil {
						dirty = fresh // gob omits zero fields by design: decoding into a fresh value is its contract
					}
				}
			}
			n++
			if err != nil || dirty != st {
				x, y := fromCPU(&z80.CPU{States: st}), fromCPU(&z80.CPU{States: dirty})
				c.Report("c10/serialise:"+codec, int64(k), "", map[string]interface{}{"codec": codec, "states": stateMap(&x)}, []string{fmt.Sprintf("States saved with encoding/%s and loaded into a States value that held other data: error %v; saved %v ; loaded %v", codec, err, stateMap(&x), stateMap(&y))})
			}
		}
	}
	c.Evaluations += n
	c.Traces += n
	c.Nontrivial += n
}
