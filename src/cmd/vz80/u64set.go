package main

// u64set is a small open-addressing set of non-zero uint64 keys that can be
// cleared in O(entries).
type u64set struct {
	tab  []uint64
	used []uint32
	mask uint64
}

func newU64set(bits uint) *u64set {
	return &u64set{tab: make([]uint64, 1<<bits), mask: 1<<bits - 1}
}

func (s *u64set) add(k uint64) {
	if k == 0 {
		k = 1
	}
	if len(s.used)*2 > len(s.tab) {
		s.grow()
	}
	i := (k * 0x9E3779B97F4A7C15 >> 20) & s.mask
	for {
		v := s.tab[i]
		if v == k {
			return
		}
		if v == 0 {
			s.tab[i] = k
			s.used = append(s.used, uint32(i))
			return
		}
		i = (i + 1) & s.mask
	}
}

func (s *u64set) grow() {
	old := s.tab
	oldUsed := s.used
	s.tab = make([]uint64, len(old)*2)
	s.mask = uint64(len(s.tab) - 1)
	s.used = make([]uint32, 0, len(oldUsed)*2)
	for _, i := range oldUsed {
		s.add(old[i])
	}
}

func (s *u64set) len() int { return len(s.used) }

func (s *u64set) clear() {
	for _, i := range s.used {
		s.tab[i] = 0
	}
	s.used = s.used[:0]
}
