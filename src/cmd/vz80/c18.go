package main

import (
	"bytes"
	"context"
	"encoding/json"
	"fmt"
	"io"
	"log"
	"os"
	"os/exec"
	"path/filepath"
	"strings"
	"time"

	z80 "github.com/koron-go/z80"
	"github.com/koron-go/z80/internal/tinycpm"
)

// C18: the mini CP/M machine prints what programs ask for and returns control
// correctly. BFS over BDOS call sequences on the real internal/tinycpm (the
// harness is mounted inside the module, so the current tree's package is
// used) driven by the real CPU.Run, with a breakpoint after every call.
func init() {
	register("C18", checkC18)
	replayers["c18/cpm"] = func(c *Ctx, raw []byte) []string {
		var cs c18Case
		if err := json.Unmarshal(raw, &cs); err != nil {
			return []string{"bad replay file"}
		}
		return c18RunW(cs.Calls, cs.Writers)
	}
}

type c18Call struct {
	Kind string  `json:"kind"` // fn2, fn9, unsupported, out, in
	E    uint8   `json:"e,omitempty"`
	Str  []uint8 `json:"str,omitempty"`
	Addr uint16  `json:"addr,omitempty"`
	Fn   uint8   `json:"fn,omitempty"`
	Port uint8   `json:"port,omitempty"`
}

type c18Case struct {
	Calls []c18Call `json:"calls"`
	// Writers: kind of the console writer installed first and of the one SetStdout installs later:
	// 0 *bytes.Buffer (offers WriteByte, WriteString, ...); 1 a writer with nothing but Write;
	// 2 as 1, and inside Write - before it looks at the bytes - a second, independent tinycpm machine prints
	// another byte to its own console (two machines in one process, interleaved at the only point where
	// control leaves the package)
	Writers [2]int `json:"writers,omitempty"`
}

// c18Writer is a console writer of one of the kinds above.
type c18Writer interface {
	io.Writer
	Bytes() []byte
}

type c18Plain struct{ b []byte }

func (w *c18Plain) Write(p []byte) (int, error) { w.b = append(w.b, p...); return len(p), nil }
func (w *c18Plain) Bytes() []byte               { return w.b }

type c18Nest struct {
	b      []byte
	other  *tinycpm.IO
	otherB bytes.Buffer
	bad    string
}

func (w *c18Nest) Write(p []byte) (int, error) {
	// the second machine prints first
	for i := range p {
		x := uint8(len(w.b)+i)*31 + 7
		before := w.otherB.Len()
		w.other.Out(0, x)
		if o := w.otherB.Bytes(); len(o) != before+1 || o[before] != x {
			w.bad = fmt.Sprintf("the second machine printed %02X and its console received % X", x, o[before:])
		}
	}
	w.b = append(w.b, p...)
	return len(p), nil
}
func (w *c18Nest) Bytes() []byte { return w.b }

// c18Flaky is a writer whose second Write fails (a full pipe, a transient error) and takes nothing; every
// other Write succeeds. Every byte the program prints is still offered to the writer in order: what arrives is
// everything except the byte of the failed call.
type c18Flaky struct {
	b []byte
	n int
}

func (w *c18Flaky) Write(p []byte) (int, error) {
	w.n++
	if w.n == 2 {
		return 0, fmt.Errorf("transient write error injected by the harness")
	}
	w.b = append(w.b, p...)
	return len(p), nil
}
func (w *c18Flaky) Bytes() []byte { return w.b }

func isSubsequence(a, b []byte) bool {
	i := 0
	for _, x := range b {
		if i < len(a) && a[i] == x {
			i++
		}
	}
	return i == len(a)
}

// c18Full is a writer that never takes a byte: every Write answers (0, io.ErrShortWrite) - a full fixed-size
// capture buffer, a bufio.Writer whose underlying writer failed once. The program must still run to its end.
// It counts the calls: a console device that keeps retrying is stopped after 100 000 of them.
type c18Full struct{ n int }

func (w *c18Full) Write(p []byte) (int, error) {
	w.n++
	if w.n > 100000 {
		panic(watchdogPanic{w.n})
	}
	return 0, io.ErrShortWrite
}
func (w *c18Full) Bytes() []byte { return nil }

func newC18Writer(kind int) c18Writer {
	switch kind {
	case 4:
		return &c18Full{}
	case 3:
		return &c18Flaky{}
	case 1:
		return &c18Plain{}
	case 2:
		_, other := tinycpm.New()
		w := &c18Nest{other: other}
		other.SetStdout(&w.otherB)
		return w
	}
	return &bytes.Buffer{}
}

func (c c18Call) String() string {
	switch c.Kind {
	case "fn2":
		return fmt.Sprintf("fn2(E=%02X)", c.E)
	case "fn9":
		if len(c.Str) > 8 {
			return fmt.Sprintf("fn9(%d bytes at %04X)", len(c.Str), c.Addr)
		}
		return fmt.Sprintf("fn9(% X $ at %04X)", c.Str, c.Addr)
	case "unsupported":
		return fmt.Sprintf("fn%d", c.Fn)
	case "out":
		return fmt.Sprintf("OUT (%02X),A", c.Port)
	case "setstdout":
		return "host: SetStdout(other writer)"
	}
	return fmt.Sprintf("IN A,(%02X)", c.Port)
}

// c18Run executes one call sequence and returns a diff or nil, plus Steps are not counted (Run).
func c18Run(calls []c18Call) []string { return c18RunW(calls, [2]int{0, 0}) }

// c18InitIFF: the interrupt enable state the caller runs under (both flip-flops); checkC18 runs the call pairs
// under both. Single-threaded check.
var c18InitIFF bool

func c18RunW(calls []c18Call, wk [2]int) []string {
	mem, io := tinycpm.New()
	var warn bytes.Buffer
	out, out2 := newC18Writer(wk[0]), newC18Writer(wk[1])
	io.SetStdout(out)
	io.SetWarnLogger(log.New(&warn, "", 0))
	// build the program
	pc := uint16(tinycpm.Start)
	var bps []uint16
	put := func(b ...uint8) {
		for _, x := range b {
			mem.Set(pc, x)
			pc++
		}
	}
	var want []uint8
	wantWarn := 0
	ends := false
	switchAt := map[int]bool{}
	wantSplit := -1
	for _, cl := range calls {
		switch cl.Kind {
		case "fn2":
			put(0x0E, 0x02, 0x1E, cl.E, 0xCD, 0x05, 0x00)
			want = append(want, cl.E)
		case "fn9":
			put(0x0E, 0x09, 0x11, uint8(cl.Addr), uint8(cl.Addr>>8), 0xCD, 0x05, 0x00)
			for i, b := range cl.Str {
				mem.Set(cl.Addr+uint16(i), b)
			}
			mem.Set(cl.Addr+uint16(len(cl.Str)), '$')
			want = append(want, cl.Str...)
		case "unsupported":
			put(0x0E, cl.Fn, 0x1E, 0x41, 0xCD, 0x05, 0x00)
			ends = true
		case "out":
			put(0x3E, 0x58, 0xD3, cl.Port)
			if cl.Port != 0 {
				wantWarn++
			} else {
				want = append(want, 0x58)
			}
		case "in":
			put(0xDB, cl.Port)
			wantWarn++
		case "setstdout":
			// host action between two calls: a NOP marks the place, the writer is replaced when the
			// breakpoint after it is reached
			put(0x00)
			switchAt[len(bps)] = true
			wantSplit = len(want)
		}
		bps = append(bps, pc)
		if ends {
			break
		}
	}
	put(0xC3, 0x00, 0x00) // JP 0
	codeEnd := pc
	// snapshot of the whole memory
	var before [65536]uint8
	for a := 0; a < 65536; a++ {
		before[a] = mem.Get(uint16(a))
	}
	// deterministic watchdog: the longest legitimate run (a 4096-byte string) needs < 10^5 accesses
	wd := &countMem{m: mem, limit: 2000000}
	cpu := z80.CPU{Memory: wd, IO: io, BreakPoints: map[uint16]struct{}{}}
	cpu.PC = tinycpm.Start
	const sp0 = 0xF000
	cpu.SP = sp0
	cpu.IFF1, cpu.IFF2 = c18InitIFF, c18InitIFF
	for _, b := range bps {
		cpu.BreakPoints[b] = struct{}{}
	}
	var d []string
	hit := 0
	for guardN := 0; guardN < len(bps)+2; guardN++ {
		var err error
		done := c08Watch(func() string { return "Run of a tinycpm machine (BDOS call sequence; the program ends with JP 0 or a breakpoint)" })
		p := guard(func() { err = cpu.Run(bgCtx) })
		done()
		if p != nil {
			if wp, ok := p.(watchdogPanic); ok {
				if fw, isFull := out.(*c18Full); isFull && fw.n > 100000 {
					return []string{fmt.Sprintf("the console writer answers every Write with (0, io.ErrShortWrite); the console device called it %d times for one character and the run never got on (PC=%04X)", fw.n, cpu.PC)}
				}
				o := out.Bytes()
				if len(o) > 32 {
					o = o[:32]
				}
				return []string{fmt.Sprintf("the run did not come back (deterministic watchdog after %d memory accesses; PC=%04X, %d bytes printed so far: % X...)", wp.n, cpu.PC, len(out.Bytes()), o)}
			}
			return []string{fmt.Sprintf("panic: %v", p)}
		}
		if err == z80.ErrBreakPoint {
			if hit >= len(bps) || cpu.PC != bps[hit] {
				return []string{fmt.Sprintf("control did not return to the caller: stopped at %04X, expected the instruction after call #%d", cpu.PC, hit+1)}
			}
			hit++
			if switchAt[hit-1] {
				io.SetStdout(out2)
			}
			if cpu.SP != sp0 {
				d = append(d, fmt.Sprintf("after call #%d (%v): SP=%04X, want %04X", hit, calls[hit-1], cpu.SP, sp0))
			}
			if cpu.IFF1 != c18InitIFF || cpu.IFF2 != c18InitIFF {
				d = append(d, fmt.Sprintf("after call #%d (%v): the caller's interrupt enable state changed: IFF1=%v IFF2=%v, before the call both were %v (control does not return to the caller as it left: a caller running under DI is now interruptible, or the other way round)", hit, calls[hit-1], cpu.IFF1, cpu.IFF2, c18InitIFF))
			}
			for a := uint16(tinycpm.Start); a < codeEnd; a++ {
				if mem.Get(a) != before[a] {
					d = append(d, fmt.Sprintf("after call #%d: caller's code byte at %04X changed", hit, a))
					break
				}
			}
			if len(d) > 0 {
				return d
			}
			continue
		}
		if err != nil {
			return []string{fmt.Sprintf("Run returned %v", err)}
		}
		break
	}
	if !ends {
		if hit != len(bps) {
			d = append(d, fmt.Sprintf("only %d of %d calls returned to the caller", hit, len(bps)))
		}
		if cpu.PC != 0xFF03 || !cpu.HALT {
			d = append(d, fmt.Sprintf("JP 0 must end the run halted at FF03: PC=%04X HALT=%v", cpu.PC, cpu.HALT))
		}
	}
	if wantSplit >= 0 {
		// output before the host replaced the writer belongs to the first writer, everything after to the second
		if _, flaky := out.(*c18Flaky); flaky {
			// the first writer failed once: what it holds is what it accepted (some subsequence of what was printed
			// up to the replacement); the replacement writer must receive everything printed after it was installed
			if !isSubsequence(out.Bytes(), want[:wantSplit]) || !bytes.Equal(out2.Bytes(), want[wantSplit:]) {
				d = append(d, fmt.Sprintf("the first console writer failed on its 2nd Write and was then replaced (SetStdout): the replacement got % X (want % X); the first holds % X (printed before the replacement: % X)", out2.Bytes(), want[wantSplit:], out.Bytes(), want[:wantSplit]))
			}
		} else if !bytes.Equal(out.Bytes(), want[:wantSplit]) || !bytes.Equal(out2.Bytes(), want[wantSplit:]) {
			d = append(d, fmt.Sprintf("SetStdout between two calls: first writer got % X (want % X), second writer got % X (want % X)", out.Bytes(), want[:wantSplit], out2.Bytes(), want[wantSplit:]))
		}
	} else if _, full := out.(*c18Full); full {
		// nothing can arrive; the run itself is what is judged
	} else if !bytes.Equal(out.Bytes(), want) {
		g, w := out.Bytes(), want
		if len(g) > 24 {
			g = g[:24]
		}
		if len(w) > 24 {
			w = w[:24]
		}
		d = append(d, fmt.Sprintf("console output: want %d bytes [% X...] got %d bytes [% X...]", len(want), w, len(out.Bytes()), g))
	}
	for _, o := range []c18Writer{out, out2} {
		if nw, ok := o.(*c18Nest); ok && nw.bad != "" {
			d = append(d, "two machines in one process: "+nw.bad)
		}
	}
	_, flaky1 := out.(*c18Flaky)
	if _, full := out.(*c18Full); full {
		flaky1 = true
	}
	_, flaky2 := out2.(*c18Flaky)
	if nw := strings.Count(warn.String(), "\n"); nw != wantWarn && !flaky1 && !flaky2 { // (a failed write may be worth a warning of its own)
		d = append(d, fmt.Sprintf("warnings: want %d got %d (%q)", wantWarn, nw, warn.String()))
	}
	// nothing else in memory changed (stack area below SP is dead)
	for a := 0; a < 65536; a++ {
		if mem.Get(uint16(a)) != before[a] && !(a >= sp0-16 && a < sp0) {
			d = append(d, fmt.Sprintf("memory[%04X] changed from %02X to %02X", a, before[a], mem.Get(uint16(a))))
			break
		}
	}
	return d
}

func checkC18(c *Ctx) {
	var n, nt int64
	wk := [2]int{0, 0}
	run := func(key string, calls []c18Call) bool {
		d := c18RunW(calls, wk)
		n++
		if len(calls) > 0 {
			nt++
		}
		if d != nil {
			var names []string
			for _, cl := range calls {
				names = append(names, cl.String())
			}
			c.Report("c18/cpm:"+key, n, "", c18Case{calls, wk}, append([]string{fmt.Sprintf("call sequence %v; JP 0; console writer kinds %v (0 bytes.Buffer, 1 Write only, 2 Write only with a second machine printing inside Write, 3 a writer whose 2nd Write fails, 4 a writer that answers every Write with (0, io.ErrShortWrite))", names, wk)}, d...))
			return false
		}
		return true
	}
	// function 2: all 256 E values
	for e := 0; e < 256; e++ {
		if !run("fn2", []c18Call{{Kind: "fn2", E: uint8(e)}}) {
			break
		}
	}
	// function 9: every string over the alphabet up to length 3, at several addresses
	alpha := []uint8{0x00, 0x23, 0x25, 0x7F, 0x80, 0xFF, 'A'}
	var strs [][]uint8
	var gen func(cur []uint8)
	gen = func(cur []uint8) {
		strs = append(strs, append([]uint8{}, cur...))
		if len(cur) == 3 {
			return
		}
		for _, a := range alpha {
			gen(append(cur, a))
		}
	}
	gen(nil)
	addrs := []uint16{0x0200, 0x7FFF, 0xFD00}
	ok := true
	for i, s := range strs {
		if !ok {
			break
		}
		a := addrs[i%len(addrs)]
		ok = run("fn9", []c18Call{{Kind: "fn9", Str: s, Addr: a}})
		if ok {
			// string ending right below the BDOS entry (terminator at FE05)
			ok = run("fn9", []c18Call{{Kind: "fn9", Str: s, Addr: 0xFE05 - uint16(len(s))}})
		}
	}
	// every single byte value except '$'
	for b := 0; b < 256 && ok; b++ {
		if b == '$' {
			continue
		}
		ok = run("fn9", []c18Call{{Kind: "fn9", Str: []uint8{uint8(b)}, Addr: 0x00FE + uint16(b)*0x0101&0x7FFF | 0x0200}})
	}
	// long strings, crossing page boundaries
	for _, l := range []int{0, 1, 255, 256, 257, 4095, 4096} {
		if !ok {
			break
		}
		s := make([]uint8, l)
		for i := range s {
			s[i] = uint8(i*7 + 1)
			if s[i] == '$' {
				s[i] = '#'
			}
		}
		for _, a := range []uint16{0x0200, 0x02FF, 0x7FFF, 0x80FE, 0xEDFF} {
			if int(a)+l+1 > 0xF000-32 && a != 0xEDFF {
				continue
			}
			if a == 0xEDFF && l > 256 {
				continue
			}
			ok = ok && run("fn9-long", []c18Call{{Kind: "fn9", Str: s, Addr: a}})
		}
	}
	// all call sequences up to length 2 (quick) / 3 (thorough) over a mixed alphabet
	calls := []c18Call{
		{Kind: "fn2", E: 'x'}, {Kind: "fn2", E: '$'}, {Kind: "fn2", E: 0x00},
		{Kind: "fn9", Str: []uint8("hi"), Addr: 0x0300}, {Kind: "fn9", Str: nil, Addr: 0x0310}, {Kind: "fn9", Str: []uint8{0xFF, 0x00, 'z'}, Addr: 0x03FE},
		{Kind: "unsupported", Fn: 0}, {Kind: "unsupported", Fn: 1}, {Kind: "unsupported", Fn: 10}, {Kind: "unsupported", Fn: 255},
		{Kind: "out", Port: 0}, {Kind: "out", Port: 1}, {Kind: "out", Port: 255}, {Kind: "in", Port: 0}, {Kind: "in", Port: 7},
	}
	depth := 2
	if !c.Quick() {
		depth = 3
	}
	var seq func(cur []c18Call)
	seq = func(cur []c18Call) {
		if !ok {
			return
		}
		if len(cur) > 0 {
			ok = run("sequence", cur)
		}
		if len(cur) == depth || (len(cur) > 0 && cur[len(cur)-1].Kind == "unsupported") {
			return
		}
		for _, cl := range calls {
			seq(append(append([]c18Call{}, cur...), cl))
		}
	}
	seq(nil)
	// the host replaces the console writer between two calls (and before the first one), every pair of writer kinds
	for k1 := 0; k1 < 3; k1++ {
		for k2 := 0; k2 < 3; k2++ {
			wk = [2]int{k1, k2}
			for _, a := range calls[:6] {
				for _, b := range calls[:6] {
					if !ok {
						break
					}
					ok = run("setstdout", []c18Call{a, {Kind: "setstdout"}, b}) && run("setstdout", []c18Call{{Kind: "setstdout"}, a, b})
				}
			}
		}
	}
	// a console writer that fails once and is then replaced
	for k2 := 0; k2 < 2 && ok; k2++ {
		wk = [2]int{3, k2}
		for _, a := range calls[:6] {
			for _, b := range calls[:6] {
				if ok {
					ok = run("setstdout", []c18Call{a, b, {Kind: "setstdout"}, a, b}) && run("setstdout", []c18Call{calls[3], {Kind: "setstdout"}, b})
				}
			}
		}
	}
	// the caller runs with interrupts enabled: all call pairs again
	c18InitIFF = true
	wk = [2]int{0, 0}
	for _, a := range calls {
		for _, b := range calls {
			if ok && a.Kind != "unsupported" {
				ok = run("sequence", []c18Call{a, b})
			}
		}
	}
	c18InitIFF = false
	// a console writer that never takes a byte: the program still runs to its end
	wk = [2]int{4, 0}
	for _, a := range calls[:6] {
		for _, b := range calls[:6] {
			if ok {
				ok = run("sequence", []c18Call{a, b})
			}
		}
	}
	// every writer kind alone: all 256 byte values and the call pairs
	for k1 := 1; k1 < 3 && ok; k1++ {
		wk = [2]int{k1, 0}
		for e := 0; e < 256 && ok; e++ {
			ok = run("fn2", []c18Call{{Kind: "fn2", E: uint8(e)}})
		}
		for _, a := range calls {
			for _, b := range calls {
				if ok && a.Kind != "unsupported" {
					ok = run("sequence", []c18Call{a, b})
				}
			}
		}
	}
	wk = [2]int{0, 0}
	// the empty program: JP 0 only
	run("exit", nil)
	toolRuns := c18Tool(c, calls)
	n += toolRuns
	nt += toolRuns
	c.Evaluations = n
	c.Nontrivial = nt
	c.States = n
	c.Transitions = n
	c.Traces = n
	c.Exhaustive = true
	c.Rule = fmt.Sprintf("real tinycpm machine + real CPU.Run, a breakpoint after every call: function 2 with all 256 E values; function 9 with every string over the alphabet {00,23,25,7F,80,FF,'A'} of length 0..3 (%d strings) at addresses {0200,7FFF,FD00} and ending right below the BDOS entry (terminator at FE05), every single non-'$' byte value, lengths {0,1,255,256,257,4095,4096} across page boundaries; all call sequences of length <=%d over a 15-letter alphabet {fn2(x), fn2('$'), fn2(0), 3 fn9 strings, unsupported fn 0/1/10/255, OUT (0)/(1)/(255), IN (0)/(7)}; the host replacing the console writer (SetStdout) between two calls, for every pair of writer kinds {bytes.Buffer, a writer with only Write, such a writer inside whose Write a second independent tinycpm machine prints to its own console}; a writer that never takes a byte (every Write answers io.ErrShortWrite: the program still runs to its end); a writer whose 2nd Write fails, replaced afterwards (the replacement receives everything printed after it was installed); every writer kind alone with all 256 byte values and all call pairs; exit via JP 0; the command-line runner cmd/zexdoc (built from the current tree) on generated program images as zexdoc.cim / zexall.cim (-all), stdout through a pipe: all call pairs, long output (0..70000 bytes), runs that end abnormally (unsupported function, HALT in the program, unwritable -memprof path), the image delivered through a named pipe in two parts: stdout carries exactly the bytes printed before the end, the exit status is 0 exactly for the normal end. Oracle: console writer receives exactly the specified bytes in order; after every call PC is the instruction after the CALL, SP, the caller's code bytes and the caller's interrupt enable state (IFF1/IFF2; call pairs run under both states) are unchanged; final halt at FF03; exactly one warning per port!=0 write and per port read; nothing else in memory changed. Non-trivial: every case with at least one call (counted).", len(strs), depth)
	c.Bound = fmt.Sprintf("call sequences <=%d", depth)
	c.Sample(c18Case{Calls: []c18Call{{Kind: "fn9", Str: []uint8{0xFF, 0x00, 'z'}, Addr: 0x03FE}, {Kind: "out", Port: 1}, {Kind: "fn2", E: '$'}}})
	c.Assume("strings lie outside page 0, the BIOS pages and the stack (statement: 'arbitrary addresses outside the BIOS pages')")
	c.Assume("an unsupported function number ends the sequence (the BIOS halts); only 'no output, no panic' is required of it")
}

// c18Tool drives the repository's command-line runner: the program image is written as zexdoc.cim (or
// zexall.cim with -all) into an empty directory, the tool runs there with stdout on a pipe. Whatever the
// program printed before the run ended - normally or not - must be on stdout, byte for byte.
func c18Tool(c *Ctx, alphabet []c18Call) int64 {
	bin := os.Getenv("VERIF_ZEXDOC")
	if _, err := os.Stat(bin); bin == "" || err != nil {
		c.Set("command_line_runner", "not built (bin/check C18 builds cmd/zexdoc from the current tree); tool pass skipped")
		return 0
	}
	root := os.Getenv("VERIF_RUN_DIR")
	if root == "" {
		root = filepath.Join(c.Verif, "build", "tmp")
	}
	dir := filepath.Join(root, "c18-tool")
	os.MkdirAll(dir, 0o755)
	defer os.RemoveAll(dir)
	type tcase struct {
		Calls   []c18Call `json:"calls"`
		End     string    `json:"end"` // jp0, halt, none (falls into an unsupported call)
		All     bool      `json:"all_flag"`
		MemProf bool      `json:"unwritable_memprof"`
		// MemProfOK: -memprof with a writable path; whatever happens to the profile, an abnormal end of the program
		// still ends with a non-zero status
		MemProfOK bool `json:"writable_memprof"`
		// Fifo: the image file is a named pipe whose writer delivers the image in two parts with a pause in between
		Fifo bool `json:"image_through_fifo_in_two_parts"`
	}
	var n int64
	one := func(tc tcase) bool {
		// assemble
		img := []uint8{}
		pc := uint16(tinycpm.Start)
		strs := map[uint16][]uint8{}
		var want []uint8
		abnormal := tc.MemProf
		for _, cl := range tc.Calls {
			switch cl.Kind {
			case "fn2":
				img = append(img, 0x0E, 0x02, 0x1E, cl.E, 0xCD, 0x05, 0x00)
				want = append(want, cl.E)
			case "fn9":
				img = append(img, 0x0E, 0x09, 0x11, uint8(cl.Addr), uint8(cl.Addr>>8), 0xCD, 0x05, 0x00)
				strs[cl.Addr] = cl.Str
				want = append(want, cl.Str...)
			case "unsupported":
				img = append(img, 0x0E, cl.Fn, 0x1E, 0x41, 0xCD, 0x05, 0x00)
				abnormal = true
			case "out":
				img = append(img, 0x3E, 0x58, 0xD3, cl.Port)
				if cl.Port == 0 {
					want = append(want, 0x58)
				}
			case "in":
				img = append(img, 0xDB, cl.Port)
			}
			if cl.Kind == "unsupported" {
				break
			}
		}
		switch tc.End {
		case "halt":
			img = append(img, 0x76)
			abnormal = true
		default:
			img = append(img, 0xC3, 0x00, 0x00)
		}
		_ = pc
		full := make([]uint8, 0)
		full = append(full, img...)
		for a, sdata := range strs {
			off := int(a) - tinycpm.Start
			for len(full) < off+len(sdata)+1 {
				full = append(full, 0)
			}
			copy(full[off:], sdata)
			full[off+len(sdata)] = '$'
		}
		name := "zexdoc.cim"
		var args []string
		if tc.All {
			name = "zexall.cim"
			args = append(args, "-all")
		}
		if tc.MemProf {
			args = append(args, "-memprof", filepath.Join(dir, "no", "such", "dir", "mem.prof"))
		}
		if tc.MemProfOK {
			args = append(args, "-memprof", filepath.Join(dir, "mem.prof"), "-cpuprof", filepath.Join(dir, "cpu.prof"))
			defer os.Remove(filepath.Join(dir, "mem.prof"))
			defer os.Remove(filepath.Join(dir, "cpu.prof"))
		}
		os.Remove(filepath.Join(dir, "zexdoc.cim"))
		os.Remove(filepath.Join(dir, "zexall.cim"))
		fifoDone := make(chan struct{})
		if tc.Fifo {
			path := filepath.Join(dir, name)
			if err := makeFifo(path); err != nil {
				c.Set("fifo_cases", "skipped: "+err.Error())
				return true
			}
			go func() {
				defer close(fifoDone)
				f, err := os.OpenFile(path, os.O_WRONLY, 0)
				if err != nil {
					return
				}
				half := len(full) / 2
				f.Write(full[:half])
				time.Sleep(150 * time.Millisecond) // a stimulus, not an oracle: a complete reader is right whatever the timing
				f.Write(full[half:])
				f.Close()
			}()
		} else {
			close(fifoDone)
			if err := os.WriteFile(filepath.Join(dir, name), full, 0o644); err != nil {
				c.Capped("framework: " + err.Error())
				return false
			}
		}
		ctx, cancel := context.WithTimeout(context.Background(), 2*time.Minute)
		defer cancel()
		cmd := exec.CommandContext(ctx, bin, args...)
		cmd.Dir = dir
		var so, se bytes.Buffer
		cmd.Stdout, cmd.Stderr = &so, &se
		err := cmd.Run()
		if tc.Fifo {
			// unblock a writer whose reader went away early, then wait for it
			if f, e := openNonblockRead(filepath.Join(dir, name)); e == nil {
				<-fifoDone
				f.Close()
			} else {
				<-fifoDone
			}
			os.Remove(filepath.Join(dir, name))
		}
		n++
		var d []string
		if !bytes.Equal(so.Bytes(), want) {
			g, w := so.Bytes(), want
			if len(g) > 24 {
				g = g[:24]
			}
			if len(w) > 24 {
				w = w[:24]
			}
			d = append(d, fmt.Sprintf("stdout of the runner: want %d bytes [% X...] got %d bytes [% X...] (exit: %v, stderr: %q)", len(want), w, so.Len(), g, err, strings.TrimSpace(se.String())))
		}
		if (err != nil) != abnormal {
			d = append(d, fmt.Sprintf("exit status: %v; the run ended %s (stderr: %q)", err, map[bool]string{true: "abnormally, a non-zero status is expected", false: "with JP 0, status 0 is expected"}[abnormal], strings.TrimSpace(se.String())))
		}
		if len(d) > 0 {
			var names []string
			for _, cl := range tc.Calls {
				names = append(names, cl.String())
			}
			c.Report("c18/tool", n, "", tc, append([]string{fmt.Sprintf("cmd/zexdoc %v on the image of %v; end: %s", args, names, tc.End)}, d...))
			return false
		}
		return true
	}
	// strings must lie above the code: relocate the alphabet's strings
	reloc := func(cl c18Call, slot int) c18Call {
		if cl.Kind == "fn9" {
			cl.Addr = uint16(0x0400 + 0x40*slot)
		}
		return cl
	}
	ok := true
	for i, a := range alphabet {
		for j, b := range alphabet {
			if !ok {
				return n
			}
			if a.Kind == "unsupported" {
				continue
			}
			ok = one(tcase{Calls: []c18Call{reloc(a, 0), reloc(b, 1)}, End: "jp0", All: (i+j)%2 == 1})
		}
	}
	// abnormal ends after some output
	for _, a := range alphabet[:6] {
		if !ok {
			return n
		}
		ok = one(tcase{Calls: []c18Call{reloc(a, 0)}, End: "halt"}) &&
			one(tcase{Calls: []c18Call{reloc(a, 0), reloc(a, 1)}, End: "jp0", MemProf: true}) &&
			one(tcase{Calls: []c18Call{reloc(a, 0), {Kind: "unsupported", Fn: 3}}, End: "jp0"})
	}
	// profiles requested and written: the verdict of the run is not lost over them
	for _, a := range alphabet[:3] {
		if !ok {
			return n
		}
		ok = one(tcase{Calls: []c18Call{reloc(a, 0)}, End: "halt", MemProfOK: true}) &&
			one(tcase{Calls: []c18Call{reloc(a, 0), {Kind: "unsupported", Fn: 3}}, End: "jp0", MemProfOK: true}) &&
			one(tcase{Calls: []c18Call{reloc(a, 0)}, End: "jp0", MemProfOK: true})
	}
	// the image arrives through a named pipe in two parts
	for _, a := range alphabet[3:6] {
		if !ok {
			return n
		}
		ok = one(tcase{Calls: []c18Call{reloc(a, 0), reloc(alphabet[3], 1)}, End: "jp0", Fifo: true})
	}
	// long output: around the usual buffer sizes
	for _, l := range []int{0, 1, 4095, 4096, 4097, 8192, 65536 - 0x0400 - 0x1100, 16384} {
		if !ok {
			return n
		}
		sdata := make([]uint8, l)
		for i := range sdata {
			sdata[i] = uint8(i*11 + 5)
			if sdata[i] == '$' {
				sdata[i] = '!'
			}
		}
		ok = one(tcase{Calls: []c18Call{{Kind: "fn9", Str: sdata, Addr: 0x0400}}, End: "jp0"}) &&
			one(tcase{Calls: []c18Call{{Kind: "fn9", Str: sdata, Addr: 0x0400}}, End: "halt"})
	}
	c.Set("command_line_runner_runs", n)
	return n
}
