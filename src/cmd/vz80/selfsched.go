package main

import (
	"fmt"

	"github.com/koron-go/z80/internal/verif/sched"
	"github.com/koron-go/z80/internal/verif/shim/rt"
)

// selfcheckSched: the scheduler/explorer and the happens-before tracker are
// themselves shown to work on tiny programs with known answers (a harness that
// has never failed has not been shown to work):
//  1. lost update: two threads do load;point;store on a shared counter. With
//     preemption bound 0 every schedule ends with 2; with bound 1 some
//     schedule must end with 1; the number of schedules is known.
//  2. replaying a recorded schedule twice gives identical results; a prefix
//     with an out-of-range choice is reported as divergence.
//  3. the tracker reports a race for unsynchronised write/read and none when
//     the accesses are ordered by a release/acquire pair.
//  4. a thread blocked forever is reported as deadlock, fair yields let a
//     polling loop terminate.
func selfcheckSched() (bool, string) {
	var final int
	body := func(s *sched.Scheduler) {
		counter := 0
		for t := 0; t < 2; t++ {
			s.Go(fmt.Sprintf("t%d", t), func() {
				v := counter
				s.Point("between load and store")
				counter = v + 1
				final = counter
			})
		}
	}
	outcomes := map[int]int{}
	st0 := sched.Explore(0, 100, 0, body, func(x *sched.Scheduler) bool { outcomes[final]++; return true })
	if len(outcomes) != 1 || outcomes[2] != st0.Executions {
		return false, fmt.Sprintf("lost-update example, bound 0: want only outcome 2, got %v", outcomes)
	}
	outcomes = map[int]int{}
	st1 := sched.Explore(1, 100, 0, body, func(x *sched.Scheduler) bool { outcomes[final]++; return true })
	if outcomes[1] == 0 || outcomes[2] == 0 {
		return false, fmt.Sprintf("lost-update example, bound 1: want outcomes 1 and 2, got %v", outcomes)
	}
	stU := sched.Explore(-1, 100, 0, body, func(x *sched.Scheduler) bool { return true })
	if stU.Executions < st1.Executions || st1.Executions <= st0.Executions {
		return false, fmt.Sprintf("schedule counts not monotone in the bound: %d %d %d", st0.Executions, st1.Executions, stU.Executions)
	}
	// 2. replay determinism / divergence
	var first []int
	sched.Explore(1, 100, 0, body, func(x *sched.Scheduler) bool {
		if final == 1 && first == nil {
			first = x.Choices()
		}
		return true
	})
	for i := 0; i < 2; i++ {
		sched.Execute(first, 100, body)
		if final != 1 {
			return false, "replaying the recorded lost-update schedule did not reproduce the outcome"
		}
	}
	if x := sched.Execute([]int{7}, 100, body); x.Diverged == "" {
		return false, "an out-of-range choice in a replayed prefix was not reported as divergence"
	}
	// 3. happens-before tracker
	race := func(sync bool) int {
		var shared int
		var flag int32
		n := 0
		x := sched.Execute(nil, 100, func(s *sched.Scheduler) {
			rt.Install(s)
			s.Go("writer", func() {
				*rt.W(&shared) = 1
				if sync {
					rt.HB.Release(s.Current(), 99)
				}
				flag = 1
				rt.Point("p")
			})
			s.Go("reader", func() {
				_ = flag
				if sync {
					rt.HB.Acquire(s.Current(), 99)
				}
				_ = *rt.R(&shared)
			})
		})
		_ = x
		n = len(rt.HB.Races)
		rt.Uninstall()
		return n
	}
	if race(false) == 0 {
		return false, "tracker missed an unsynchronised write/read pair"
	}
	if race(true) != 0 {
		return false, "tracker reported a race although the accesses are ordered by release/acquire"
	}
	// 4. deadlock and fair yields
	x := sched.Execute(nil, 100, func(s *sched.Scheduler) {
		s.Go("blocked", func() { s.Block("never", func() bool { return false }) })
	})
	if !x.Deadlock {
		return false, "a thread blocked forever was not reported as deadlock"
	}
	done := false
	x = sched.Execute(nil, 200, func(s *sched.Scheduler) {
		s.Go("poller", func() {
			for !done {
				s.Yield("poll")
			}
		})
		s.Go("setter", func() { s.Point("p"); done = true })
	})
	if x.HorizonHit || x.Deadlock || len(x.Unfinished()) != 0 {
		return false, "a polling loop with fair yields did not terminate"
	}
	return true, fmt.Sprintf("scheduler: lost update found at preemption bound 1 (%d/%d/%d schedules at bound 0/1/unbounded), replay reproduces, divergence detected, HB tracker finds the seeded race and accepts the synchronised variant, deadlock and fairness behave", st0.Executions, st1.Executions, stU.Executions)
}
