package main

import (
	"bytes"
	"context"
	"fmt"
	"os"
	"os/exec"
	"path/filepath"
	"strings"
	"time"

	"github.com/koron-go/z80/internal/zex"
)

// C17: the Go exerciser tables are exactly the canonical zexdoc/zexall cases.
// Finite configuration space, compared completely, three legs: (a) the .cim
// images of the current tree <-> zex.DocCases/AllCases (the harness is mounted
// inside the module, so these are the tables the tests use); (b) the images
// and assembler sources against digests pinned from the pristine commit;
// (c) the repository's own converter, built from the current tree, applied to
// the .asm sources must reproduce doc.go/all.go byte for byte.
func init() {
	register("C17", checkC17)
	replayers["c17/tables"] = func(c *Ctx, raw []byte) []string {
		return []string{"C17 compares files of the tree; re-run `bin/check C17`; see the diff in the file"}
	}
}

const (
	shaZexdocAsm = "0e2e7d05e5dd27c932de64d4c3711351f53388ed02d2e99e2e706ef6216ca9b3"
	shaZexallAsm = "a263efc67ed6f890268c6f9e00f7911d9376a6bc6ddaec5ce04e33a5f483733c"
)

type c17Case struct {
	Image string `json:"image"`
	Index int    `json:"index"`
	Desc  string `json:"desc"`
}

func checkC17(c *Ctx) {
	c.Level = "exploration"
	var n, nt int64
	legs := []struct {
		img, sha, asm, asmSha, gofile, sed string
		cases                              []zex.Case
	}{
		{"zexdoc.cim", shaZexdoc, "zexdoc.asm", shaZexdocAsm, "doc.go", "", zex.DocCases},
		{"zexall.cim", shaZexall, "zexall.asm", shaZexallAsm, "all.go", "All", zex.AllCases},
	}
	conv := os.Getenv("VERIF_CONVERT_CASE")
	for _, l := range legs {
		path := filepath.Join(c.Repo, "cmd", "zexdoc", l.img)
		img, err := os.ReadFile(path)
		if err != nil {
			c.Report("c17/tables:"+l.img, 0, "", c17Case{Image: l.img}, []string{"cannot read " + path + ": " + err.Error()})
			continue
		}
		// (b) pristine image
		n++
		nt++
		if got := sha256hex(img); got != l.sha {
			c.Report("c17/tables:"+l.img+"-digest", 0, "", c17Case{Image: l.img}, []string{fmt.Sprintf("%s is not the canonical image: sha256 %s, pinned %s", path, got, l.sha)})
		}
		// (a) image <-> tables
		recs, msbt, err := parseCim(img)
		if err != nil {
			c.Report("c17/tables:"+l.img, 0, "", c17Case{Image: l.img}, []string{"cannot parse the image: " + err.Error()})
			continue
		}
		if msbt != zex.Msbt {
			c.Report("c17/tables:msbt", 0, "", c17Case{Image: l.img}, []string{fmt.Sprintf("zex.Msbt = %04X, image has the machine state at %04X", zex.Msbt, msbt)})
		}
		if len(recs) != 67 || len(l.cases) != len(recs) {
			c.Report("c17/tables:"+l.img+"-count", 0, "", c17Case{Image: l.img}, []string{fmt.Sprintf("image has %d cases, Go table has %d, canonical count is 67", len(recs), len(l.cases))})
		}
		for i := 0; i < len(recs) && i < len(l.cases); i++ {
			r, g := &recs[i], &l.cases[i]
			var d []string
			if g.FlagMask != r.Mask {
				d = append(d, fmt.Sprintf("flag mask: Go %02X image %02X", g.FlagMask, r.Mask))
			}
			for _, v := range []struct {
				name string
				got  []byte
				want []uint8
			}{{"base", g.BaseCase.Bytes(), r.Base[:]}, {"increment", g.IncVec.Bytes(), r.Inc[:]}, {"shift", g.ShiftVec.Bytes(), r.Shift[:]}} {
				n += 20
				if !bytes.Equal(v.got, v.want) {
					d = append(d, fmt.Sprintf("%s vector: Go % X image % X", v.name, v.got, v.want))
				}
			}
			if uint32(g.Expect) != r.CRC {
				d = append(d, fmt.Sprintf("expected CRC: Go %08x image %08x", uint32(g.Expect), r.CRC))
			}
			if g.Desc != r.Msg {
				d = append(d, fmt.Sprintf("description: Go %q image %q", g.Desc, r.Msg))
			}
			n += 6
			nt++
			if d != nil {
				c.Report(fmt.Sprintf("c17/tables:%s#%02d", l.img, i), int64(i), "", c17Case{l.img, i, r.Msg}, append([]string{fmt.Sprintf("%s case %d %q", l.img, i, r.Msg)}, d...))
			}
		}
		// (c) assembler source -> converter -> Go table
		asmPath := filepath.Join(c.Repo, "_z80", l.asm)
		asm, err := os.ReadFile(asmPath)
		if err != nil {
			c.Report("c17/tables:"+l.asm, 0, "", c17Case{Image: l.asm}, []string{"cannot read " + asmPath})
			continue
		}
		n++
		nt++
		if got := sha256hex(asm); got != l.asmSha {
			c.Report("c17/tables:"+l.asm+"-digest", 0, "", c17Case{Image: l.asm}, []string{fmt.Sprintf("%s differs from the canonical source: sha256 %s, pinned %s", asmPath, got, l.asmSha)})
		}
		if conv == "" {
			c.Capped("converter binary not built (VERIF_CONVERT_CASE unset): leg (c) skipped")
			continue
		}
		cctx, ccancel := context.WithTimeout(context.Background(), 2*time.Minute)
		cmd := exec.CommandContext(cctx, conv)
		defer ccancel()
		cmd.Stdin = bytes.NewReader(asm)
		var outb, errb bytes.Buffer
		cmd.Stdout, cmd.Stderr = &outb, &errb
		if err := cmd.Run(); err != nil {
			c.Report("c17/tables:converter", 0, "", c17Case{Image: l.asm}, []string{fmt.Sprintf("cmd/convert_case failed on %s: %v %s", l.asm, err, errb.String())})
			continue
		}
		gen := outb.String()
		if l.sed != "" {
			gen = strings.ReplaceAll(gen, "Doc", l.sed)
		}
		goPath := filepath.Join(c.Repo, "internal", "zex", l.gofile)
		have, _ := os.ReadFile(goPath)
		n++
		nt++
		if gen != string(have) {
			gl, hl := strings.Split(gen, "\n"), strings.Split(string(have), "\n")
			where := "length differs"
			for i := 0; i < len(gl) && i < len(hl); i++ {
				if gl[i] != hl[i] {
					where = fmt.Sprintf("line %d: converter %q, file %q", i+1, gl[i], hl[i])
					break
				}
			}
			c.Report("c17/tables:"+l.gofile, 0, "", c17Case{Image: l.gofile}, []string{fmt.Sprintf("internal/zex/%s is not what cmd/convert_case produces from _z80/%s: %s", l.gofile, l.asm, where)})
		}
	}
	c.Evaluations = n
	c.Nontrivial = nt
	c.States = 134
	c.Transitions = n
	c.Traces = n
	c.Exhaustive = true
	c.Rule = "finite and complete: 2 x 67 cases x (flag mask, 3 x 20-byte vectors, CRC, description) of zex.DocCases/zex.AllCases (the tables the test suite runs) against the records located through the LD HL,tests operand and the pointer table inside cmd/zexdoc/zexdoc.cim / zexall.cim of the current tree; count and order; zex.Msbt; sha256 of both images and both assembler sources against digests pinned from the pristine commit; cmd/convert_case built from the current tree applied to _z80/*.asm must reproduce internal/zex/doc.go / all.go byte for byte. Evaluations = compared fields; non-trivial = records and files compared (counted)."
	c.Bound = "complete"
	c.Sample(c17Case{"zexdoc.cim", 0, zex.DocCases[0].Desc})
	c.Sample(c17Case{"zexall.cim", 66, zex.AllCases[len(zex.AllCases)-1].Desc})
	c.Assume("the pinned digests identify the canonical zexdoc/zexall images shipped at the pinned commit")
	c.Assume("the Go port's iteration order cannot drift silently: any change in the generated state sequence changes the CRC, which the existing tests compare with the (verified) expected value; refz80 reproduces all 134 CRCs with the same order (selfcheck refcrc)")
}
