package main

import (
	"fmt"
	"sort"
	"strings"

	z80 "github.com/koron-go/z80"
)

// C15: the bundled memory and port types behave as plain byte stores with
// safe bounds. (a) complete sweeps: for 9 slice lengths every address of
// DumbMemory, for 6 lengths every port of DumbIO, every address of MapMemory;
// (b) explicit-state BFS to closure (no depth bound) over operation sequences
// on the real objects against a map model, state = stored contents.
func init() {
	register("C15", checkC15)
	replayers["c15/store"] = func(c *Ctx, raw []byte) []string {
		return []string{"C15 cases are operation lists; re-run `bin/check C15` (fast, deterministic); see the diff in the file"}
	}
}

type c15Op struct {
	Type string   `json:"type"`
	Len  int      `json:"len,omitempty"`
	Ops  []string `json:"ops"`
}

func guard(f func()) (p interface{}) {
	defer func() { p = recover() }()
	f()
	return nil
}

func checkC15(c *Ctx) {
	var n, nt int64
	fail := func(key string, idx int64, op c15Op, msg string) {
		c.Report("c15/store:"+key, idx, "", op, []string{msg})
	}
	// ---- (a) sweeps -----------------------------------------------------
	for _, l := range []int{0, 1, 2, 255, 256, 257, 32768, 65535, 65536} {
		dm := make(z80.DumbMemory, l)
		bad := false
		for a := 0; a < 65536 && !bad; a++ {
			addr := uint16(a)
			var g0, g1, g2 uint8
			if p := guard(func() {
				g0 = dm.Get(addr)
				dm.Set(addr, 0xA5^uint8(a))
				g1 = dm.Get(addr)
			}); p != nil {
				fail("DumbMemory", int64(a), c15Op{"DumbMemory", l, []string{fmt.Sprintf("Get/Set(%04X)", addr)}}, fmt.Sprintf("len %d: panic at address %04X: %v", l, addr, p))
				bad = true
				break
			}
			n += 3
			want1 := uint8(0)
			if a < l {
				want1 = 0xA5 ^ uint8(a)
				nt++
			}
			if g0 != 0 || g1 != want1 {
				fail("DumbMemory", int64(a), c15Op{"DumbMemory", l, []string{fmt.Sprintf("Get(%04X); Set(%04X,%02X); Get(%04X)", addr, addr, 0xA5^uint8(a), addr)}}, fmt.Sprintf("len %d addr %04X: fresh read %02X (want 00), read after write %02X (want %02X)", l, addr, g0, g1, want1))
				bad = true
			}
			// neighbours untouched
			for _, nb := range []int{a - 1, a + 1} {
				if nb >= 0 && nb < l && nb < 65536 {
					g2 = dm.Get(uint16(nb))
					wantNb := uint8(0)
					if nb < a {
						wantNb = 0xA5 ^ uint8(nb)
					}
					if g2 != wantNb {
						fail("DumbMemory", int64(a), c15Op{"DumbMemory", l, []string{fmt.Sprintf("Set(%04X)", addr)}}, fmt.Sprintf("len %d: writing %04X changed neighbour %04X to %02X", l, addr, nb, g2))
						bad = true
					}
				}
			}
			if len(dm) != l {
				fail("DumbMemory", int64(a), c15Op{"DumbMemory", l, nil}, "length changed")
				bad = true
			}
		}
	}
	// slices with spare capacity: the bounds are the LENGTH, not the capacity
	for _, lc := range [][2]int{{0, 16}, {1, 2}, {10, 100}, {256, 65536}, {32768, 65536}} {
		back := make([]uint8, lc[1])
		dm := z80.DumbMemory(back[:lc[0]])
		dio := z80.DumbIO(back[:lc[0]:lc[1]])
		for _, a := range []int{lc[0] - 1, lc[0], lc[0] + 1, lc[1] - 1, lc[1]} {
			if a < 0 || a > 0xFFFF {
				continue
			}
			var g uint8
			if p := guard(func() { dm.Set(uint16(a), 0x77); g = dm.Get(uint16(a)) }); p != nil {
				fail("DumbMemory-cap", int64(a), c15Op{"DumbMemory", lc[0], []string{fmt.Sprintf("len %d cap %d Set/Get(%04X)", lc[0], lc[1], a)}}, fmt.Sprintf("panic: %v", p))
				continue
			}
			n += 2
			nt++
			want := uint8(0)
			if a < lc[0] {
				want = 0x77
			}
			if g != want || (a >= lc[0] && a < lc[1] && back[a] != 0) {
				fail("DumbMemory-cap", int64(a), c15Op{"DumbMemory", lc[0], []string{fmt.Sprintf("len %d cap %d Set/Get(%04X)", lc[0], lc[1], a)}}, fmt.Sprintf("DumbMemory with len %d and capacity %d: Set/Get(%04X) gave %02X (want %02X), byte beyond the length written: %v", lc[0], lc[1], a, g, want, a >= lc[0] && a < lc[1] && back[a] != 0))
			}
			if a <= 255 && a < lc[1] {
				back[a] = 0
				var gi uint8
				if p := guard(func() { dio.Out(uint8(a), 0x66); gi = dio.In(uint8(a)) }); p != nil {
					fail("DumbIO-cap", int64(a), c15Op{"DumbIO", lc[0], nil}, fmt.Sprintf("panic: %v", p))
					continue
				}
				wanti := uint8(0)
				if a < lc[0] {
					wanti = 0x66
				}
				if gi != wanti || (a >= lc[0] && a < lc[1] && back[a] != 0) {
					fail("DumbIO-cap", int64(a), c15Op{"DumbIO", lc[0], nil}, fmt.Sprintf("DumbIO with len %d and capacity %d: Out/In(%02X) gave %02X (want %02X)", lc[0], lc[1], a, gi, wanti))
				}
			}
			if a < lc[1] {
				back[a] = 0
			}
		}
	}
	// Put: every block position class for every length (blocks lying inside the slice, incl. ending exactly at len
	// and at 0x10000, the empty block, the whole slice)
	for _, l := range []int{0, 1, 2, 255, 256, 257, 32768, 65535, 65536} {
		for _, bl := range []int{0, 1, 2, 3, 255, 256, l / 2, l - 1, l} {
			if bl < 0 || bl > l {
				continue
			}
			for _, start := range []int{0, 1, 2, 255, 256, (l - bl) / 2, l - bl - 2, l - bl - 1, l - bl} {
				if start < 0 || start+bl > l || start > 0xFFFF {
					continue
				}
				dm := make(z80.DumbMemory, l)
				for i := range dm {
					dm[i] = 0x11
				}
				blk := make([]uint8, bl)
				for i := range blk {
					blk[i] = uint8(0x80 | i&0x7F)
				}
				var ret z80.DumbMemory
				if p := guard(func() { ret = dm.Put(uint16(start), blk...) }); p != nil {
					fail("DumbMemory-Put", int64(l)*1000+int64(bl), c15Op{"DumbMemory", l, []string{fmt.Sprintf("Put(%04X, %d bytes)", start, bl)}}, fmt.Sprintf("len %d: Put(%04X, %d bytes) (block inside the slice) panicked: %v", l, start, bl, p))
					continue
				}
				n++
				nt++
				okp := len(ret) == l && len(dm) == l
				for i := 0; i < l && okp; i++ {
					want := uint8(0x11)
					if i >= start && i < start+bl {
						want = blk[i-start]
					}
					if dm[i] != want {
						okp = false
						fail("DumbMemory-Put", int64(l)*1000+int64(bl), c15Op{"DumbMemory", l, []string{fmt.Sprintf("Put(%04X, %d bytes)", start, bl)}}, fmt.Sprintf("len %d: after Put(%04X, %d bytes) byte %04X is %02X, want %02X", l, start, bl, i, dm[i], want))
					}
				}
				if !okp && len(ret) != l {
					fail("DumbMemory-Put", int64(l)*1000+int64(bl), c15Op{"DumbMemory", l, nil}, "Put changed the length / returned another slice")
				}
			}
		}
	}
	// Put whose data is a window of the same memory (moving a block inside the machine's RAM: dm.Put(dst,
	// dm[src:src+n]...)): the bytes stored are the bytes handed over, i.e. their values at the time of the call,
	// whichever way source and destination overlap
	for _, l := range []int{16, 256, 65536} {
		for _, bl := range []int{1, 2, 3, 7, 8} {
			for src := 0; src+bl <= 16; src++ {
				for dst := 0; dst+bl <= 16; dst++ {
					for _, base := range []int{0, l - 16} {
						dm := make(z80.DumbMemory, l)
						for i := range dm {
							dm[i] = uint8(i*7 + 3)
						}
						want := append([]uint8{}, dm...)
						copy(want[base+dst:], append([]uint8{}, dm[base+src:base+src+bl]...))
						if p := guard(func() { dm.Put(uint16(base+dst), dm[base+src:base+src+bl]...) }); p != nil {
							fail("DumbMemory-Put-alias", int64(l)*1000+int64(bl), c15Op{"DumbMemory", l, []string{fmt.Sprintf("Put(%04X, dm[%04X:%04X]...)", base+dst, base+src, base+src+bl)}}, fmt.Sprintf("len %d: Put(%04X, dm[%04X:%04X]...) panicked: %v", l, base+dst, base+src, base+src+bl, p))
							continue
						}
						n++
						nt++
						if i := firstDiff(dm, want); i >= 0 {
							fail("DumbMemory-Put-alias", int64(l)*1000+int64(bl), c15Op{"DumbMemory", l, []string{fmt.Sprintf("Put(%04X, dm[%04X:%04X]...)", base+dst, base+src, base+src+bl)}}, fmt.Sprintf("len %d: after Put(%04X, dm[%04X:%04X]...) (data is a window of the same memory) byte %04X is %02X, want %02X (the value handed over)", l, base+dst, base+src, base+src+bl, i, dm[i], want[i]))
						}
					}
				}
			}
		}
	}
	// the zero value of MapMemory (declared, never written) reads like any empty one; its Clone is an
	// independent copy like any other: it can be written, and writing it leaves the original alone
	{
		var zero z80.MapMemory
		var cl z80.MapMemory
		var g0, g1, g2 uint8
		p := guard(func() {
			g0 = zero.Get(0x1234)
			cl = zero.Clone()
			cl.Set(0x1234, 0x55)
			g1 = cl.Get(0x1234)
			g2 = zero.Get(0x1234)
			zero.Clear()
		})
		n++
		nt++
		if p != nil {
			fail("MapMemory-zero", 0, c15Op{"MapMemory", 0, []string{"var m MapMemory", "m.Get(1234)", "c := m.Clone()", "c.Set(1234,55)", "c.Get(1234)", "m.Get(1234)", "m.Clear()"}}, fmt.Sprintf("zero-value MapMemory: Get; Clone; clone.Set; clone.Get; Get; Clear panicked: %v", p))
		} else if g0 != 0xC7 || g1 != 0x55 || g2 != 0xC7 {
			fail("MapMemory-zero", 0, c15Op{"MapMemory", 0, []string{"var m MapMemory", "c := m.Clone()", "c.Set(1234,55)"}}, fmt.Sprintf("zero-value MapMemory: Get = %02X (want C7); after Clone and clone.Set(1234,55): clone.Get = %02X (want 55), original Get = %02X (want C7)", g0, g1, g2))
		}
	}
	// MapMemory.Put: blocks anywhere incl. wrapping past 0xFFFF, long blocks
	for _, start := range []int{0, 1, 0x7FFF, 0xFFFD, 0xFFFE, 0xFFFF} {
		for _, bl := range []int{0, 1, 2, 3, 4, 256, 65535, 65536} {
			mm := z80.MapMemory{}
			mm.Set(uint16(start)-1, 0x22)
			blk := make([]uint8, bl)
			for i := range blk {
				blk[i] = uint8(i*5 + 1)
			}
			if p := guard(func() { mm.Put(uint16(start), blk...) }); p != nil {
				fail("MapMemory-Put", int64(start), c15Op{"MapMemory", 0, []string{fmt.Sprintf("Put(%04X, %d bytes)", start, bl)}}, fmt.Sprintf("Put(%04X, %d bytes) panicked: %v", start, bl, p))
				continue
			}
			n++
			nt++
			for i := 0; i < bl; i++ {
				a := uint16(start + i)
				// later bytes overwrite earlier ones when the block is longer than the address space
				want := blk[i]
				for j := i + 65536; j < bl; j += 65536 {
					want = blk[j]
				}
				if mm.Get(a) != want {
					fail("MapMemory-Put", int64(start), c15Op{"MapMemory", 0, []string{fmt.Sprintf("Put(%04X, %d bytes)", start, bl)}}, fmt.Sprintf("after Put(%04X, %d bytes): Get(%04X) = %02X want %02X", start, bl, a, mm.Get(a), want))
					break
				}
			}
			if bl < 65536 {
				if g := mm.Get(uint16(start) - 1); g != 0x22 {
					fail("MapMemory-Put", int64(start), c15Op{"MapMemory", 0, nil}, fmt.Sprintf("Put(%04X, %d bytes) changed the byte before the block to %02X", start, bl, g))
				}
				if bl > 0 && bl < 65535 {
					if g := mm.Get(uint16(start + bl)); g != 0xC7 {
						fail("MapMemory-Put", int64(start), c15Op{"MapMemory", 0, nil}, fmt.Sprintf("Put(%04X, %d bytes) changed the byte after the block to %02X", start, bl, g))
					}
				}
			}
		}
	}
	for _, l := range []int{0, 1, 128, 255, 256, 257} {
		dio := make(z80.DumbIO, l)
		for a := 0; a < 256; a++ {
			port := uint8(a)
			var g0, g1 uint8
			if p := guard(func() {
				g0 = dio.In(port)
				dio.Out(port, 0x5A^port)
				g1 = dio.In(port)
			}); p != nil {
				fail("DumbIO", int64(a), c15Op{"DumbIO", l, []string{fmt.Sprintf("In/Out(%02X)", port)}}, fmt.Sprintf("len %d: panic at port %02X: %v", l, port, p))
				break
			}
			n += 3
			want1 := uint8(0)
			if a < l {
				want1 = 0x5A ^ port
				nt++
			}
			if g0 != 0 || g1 != want1 {
				fail("DumbIO", int64(a), c15Op{"DumbIO", l, []string{fmt.Sprintf("In(%02X); Out; In", port)}}, fmt.Sprintf("len %d port %02X: fresh read %02X, read after write %02X (want %02X)", l, port, g0, g1, want1))
				break
			}
			if a > 0 && a-1 < l && dio.In(uint8(a-1)) != 0x5A^uint8(a-1) {
				fail("DumbIO", int64(a), c15Op{"DumbIO", l, nil}, fmt.Sprintf("len %d: writing port %02X changed port %02X", l, port, a-1))
				break
			}
		}
	}
	{
		mm := z80.MapMemory{}
		for a := 0; a < 65536; a++ {
			addr := uint16(a)
			g0 := mm.Get(addr)
			mm.Set(addr, uint8(a*7))
			g1 := mm.Get(addr)
			n += 3
			nt++
			if g0 != 0xC7 || g1 != uint8(a*7) {
				fail("MapMemory", int64(a), c15Op{"MapMemory", 0, []string{fmt.Sprintf("Get(%04X); Set; Get", addr)}}, fmt.Sprintf("addr %04X: fresh read %02X (want C7), after write %02X (want %02X)", addr, g0, g1, uint8(a*7)))
				break
			}
		}
		for a := 0; a < 65536; a++ {
			if mm.Get(uint16(a)) != uint8(a*7) {
				fail("MapMemory", int64(a), c15Op{"MapMemory", 0, nil}, fmt.Sprintf("addr %04X lost its value after later writes", a))
				break
			}
		}
		n += 65536
	}
	// ---- (b) BFS over operation sequences --------------------------------
	st1, tr1 := c15BFSMap(c)
	st2, tr2 := c15BFSDumb(c)
	c.Evaluations = n + int64(tr1+tr2)
	c.Nontrivial = nt + int64(tr1+tr2)
	c.States = int64(st1 + st2)
	c.Transitions = int64(tr1 + tr2)
	c.Traces = int64(tr1 + tr2)
	c.Exhaustive = true
	c.Rule = "(a) sweeps: DumbMemory with lengths {0,1,2,255,256,257,32768,65535,65536} x every one of the 65536 addresses, DumbIO with lengths {0,1,128,255,256,257} x every port, MapMemory x every address: fresh read = default, write-then-read, neighbours untouched, out-of-range read 0 / write ignored, no panic; DumbMemory.Put with data that is a window of the same memory, every overlap of source and destination of 1..8 bytes at both ends of the slice; the zero-value MapMemory (Get, Clone, write the clone, Clear). (b) explicit-state BFS to closure over {Get, Set, Put (in-range blocks for DumbMemory, wrapping blocks for MapMemory), Clone + mutate clone / mutate original, Clear (also observed through a second variable holding the same map), Equal(equal clone / differing clone / value stored equal to the default / nil and arguments that are no map at all: false; other representations of the same contents such as a pointer to a MapMemory: only no panic), In, Out} with addresses {0,1,2,len-1,len,FFFE,FFFF} and values {00,C7,FF}; every transition calls the real method and the map model in lock-step and compares all observable addresses; canonical state key = stored contents (key set and values). Non-trivial = in-range writes and all BFS transitions (counted)."
	c.Bound = "complete sweeps; BFS to closure"
	c.Set("bfs_states_mapmemory", st1)
	c.Set("bfs_transitions_mapmemory", tr1)
	c.Set("bfs_states_dumb", st2)
	c.Set("bfs_transitions_dumb", tr2)
	c.Sample(c15Op{"MapMemory", 0, []string{"Put(FFFF, C7 00 FF)", "Clone", "clone.Set(0000,FF)", "Equal(clone) = false", "Clear", "Get(FFFF) = C7"}})
	c.Sample(c15Op{"DumbMemory", 2, []string{"Set(0001,FF)", "Set(0002,FF) ignored", "Get(0002) = 00", "Put(0000, C7 00)"}})
	c.Assume("DumbMemory.Put is only called with blocks that lie inside the slice (statement)")
	c.Assume("Equal is exercised on initialised (non-nil) MapMemory values (statement)")
}

type c15MapState map[uint16]uint8

func (s c15MapState) key() string {
	ks := make([]int, 0, len(s))
	for k := range s {
		ks = append(ks, int(k))
	}
	sort.Ints(ks)
	var sb strings.Builder
	for _, k := range ks {
		fmt.Fprintf(&sb, "%04X=%02X ", k, s[uint16(k)])
	}
	return sb.String()
}

func c15BFSMap(c *Ctx) (int, int) {
	addrs := []uint16{0x0000, 0x0001, 0xFFFE, 0xFFFF}
	obsAddrs := []uint16{0x0000, 0x0001, 0x0002, 0x0003, 0x8000, 0xFFFD, 0xFFFE, 0xFFFF}
	vals := []uint8{0x00, 0xC7, 0xFF}
	type node struct {
		model c15MapState
		path  []string
	}
	build := func(m c15MapState) z80.MapMemory {
		mm := z80.MapMemory{}
		for k, v := range m {
			mm[k] = v
		}
		return mm
	}
	seen := map[string]bool{"": true}
	front := []node{{c15MapState{}, nil}}
	trans := 0
	check := func(mm z80.MapMemory, model c15MapState, path []string) bool {
		for _, a := range obsAddrs {
			want, ok := model[a]
			if !ok {
				want = 0xC7
			}
			if g := mm.Get(a); g != want {
				c.Report("c15/store:MapMemory-bfs", int64(trans), "", c15Op{"MapMemory", 0, path}, []string{fmt.Sprintf("after %v: Get(%04X) = %02X, model says %02X", path, a, g, want)})
				return false
			}
		}
		if len(mm) != len(model) {
			c.Report("c15/store:MapMemory-bfs", int64(trans), "", c15Op{"MapMemory", 0, path}, []string{fmt.Sprintf("after %v: %d entries stored, model has %d", path, len(mm), len(model))})
			return false
		}
		return true
	}
	for len(front) > 0 {
		cur := front[0]
		front = front[1:]
		type succ struct {
			label string
			apply func(mm z80.MapMemory, model c15MapState) (z80.MapMemory, bool)
		}
		var succs []succ
		for _, a := range addrs {
			for _, v := range vals {
				a, v := a, v
				succs = append(succs, succ{fmt.Sprintf("Set(%04X,%02X)", a, v), func(mm z80.MapMemory, model c15MapState) (z80.MapMemory, bool) {
					mm.Set(a, v)
					model[a] = v
					return mm, true
				}})
			}
		}
		for _, a := range []uint16{0xFFFE, 0xFFFF, 0x0000} {
			for _, blk := range [][]uint8{{0xC7, 0x00, 0xFF}, {0xFF}, {}} {
				a, blk := a, blk
				succs = append(succs, succ{fmt.Sprintf("Put(%04X,% X)", a, blk), func(mm z80.MapMemory, model c15MapState) (z80.MapMemory, bool) {
					r := mm.Put(a, blk...)
					for i, b := range blk {
						model[a+uint16(i)] = b
					}
					// Put returns the receiver
					r.Set(0x8000, 0x11)
					ok := mm.Get(0x8000) == 0x11
					delete(mm, 0x8000)
					return mm, ok
				}})
			}
		}
		succs = append(succs, succ{"Clear", func(mm z80.MapMemory, model c15MapState) (z80.MapMemory, bool) {
			// another holder of the same map (cpu.Memory = mm): Clear empties the map, not just this variable
			other := mm
			mm.Clear()
			for k := range model {
				delete(model, k)
			}
			ok := len(other) == 0 && other.Get(0x0000) == 0xC7 && other.Get(0xFFFF) == 0xC7
			mm.Set(0x4242, 0x24)
			ok = ok && other.Get(0x4242) == 0x24
			delete(mm, 0x4242)
			return mm, ok
		}})
		succs = append(succs, succ{"Clone; mutate clone; mutate original; Equal", func(mm z80.MapMemory, model c15MapState) (z80.MapMemory, bool) {
			cl := mm.Clone()
			ok := cl.Equal(mm) && mm.Equal(cl) && len(cl) == len(mm)
			cl.Set(0x0002, 0x77)
			ok = ok && mm.Get(0x0002) == func() uint8 {
				if v, h := model[0x0002]; h {
					return v
				}
				return 0xC7
			}()
			ok = ok && !cl.Equal(mm) && !mm.Equal(cl)
			cl2 := mm.Clone()
			mm.Set(0x0003, 0x78)
			ok = ok && cl2.Get(0x0003) == 0xC7 && !cl2.Equal(mm)
			delete(mm, 0x0003)
			ok = ok && cl2.Equal(mm)
			// storing the default value explicitly is different contents
			cl3 := mm.Clone()
			if _, has := model[0x8000]; !has {
				cl3.Set(0x8000, 0xC7)
				ok = ok && !cl3.Equal(mm) && cl3.Get(0x8000) == mm.Get(0x8000)
			}
			// non-MapMemory arguments
			// (what Equal answers for other *representations of the same contents* - a pointer to a MapMemory, the
			// underlying map type - is left open by the statement: they only must not panic)
			ok = ok && !mm.Equal(nil) && !mm.Equal(z80.DumbMemory{}) && !mm.Equal(42) && !mm.Equal("x")
			_ = mm.Equal(map[uint16]uint8(mm))
			_ = mm.Equal(&mm)
			// a clone of an empty map is initialised
			if len(mm) == 0 {
				e := mm.Clone()
				ok = ok && e != nil && e.Equal(z80.MapMemory{})
				e.Set(1, 2)
			}
			return mm, ok
		}})
		for _, sc := range succs {
			mm := build(cur.model)
			model := c15MapState{}
			for k, v := range cur.model {
				model[k] = v
			}
			path := append(append([]string{}, cur.path...), sc.label)
			var res z80.MapMemory
			var ok bool
			if p := guard(func() { res, ok = sc.apply(mm, model) }); p != nil {
				c.Report("c15/store:MapMemory-bfs", int64(trans), "", c15Op{"MapMemory", 0, path}, []string{fmt.Sprintf("panic in %v: %v", path, p)})
				return len(seen), trans
			}
			trans++
			if !ok {
				c.Report("c15/store:MapMemory-bfs", int64(trans), "", c15Op{"MapMemory", 0, path}, []string{fmt.Sprintf("operation sequence %v: Clone/Equal/Put contract violated", path)})
				return len(seen), trans
			}
			if !check(res, model, path) {
				return len(seen), trans
			}
			k := model.key()
			if !seen[k] {
				seen[k] = true
				if len(path) <= 6 {
					front = append(front, node{model, path})
				}
			}
		}
	}
	// Equal on every ordered pair of visited states: true exactly for identical contents
	var all []c15MapState
	var keys []string
	for k := range seen {
		keys = append(keys, k)
	}
	sort.Strings(keys)
	for _, k := range keys {
		m := c15MapState{}
		for _, f := range strings.Fields(k) {
			var a uint16
			var v uint8
			fmt.Sscanf(f, "%04X=%02X", &a, &v)
			m[a] = v
		}
		all = append(all, m)
	}
	objs := make([]z80.MapMemory, len(all))
	for i, m := range all {
		objs[i] = build(m)
	}
	for i := range objs {
		for j := range objs {
			want := keys[i] == keys[j]
			var got bool
			if p := guard(func() { got = objs[i].Equal(objs[j]) }); p != nil || got != want {
				c.Report("c15/store:MapMemory-equal", int64(i*len(objs)+j), "", c15Op{"MapMemory", 0, []string{"{" + keys[i] + "}.Equal({" + keys[j] + "})"}}, []string{fmt.Sprintf("MapMemory{%s}.Equal(MapMemory{%s}) = %v (panic %v), want %v", keys[i], keys[j], got, p, want)})
				return len(seen), trans
			}
			trans++
		}
	}
	return len(seen), trans
}

func c15BFSDumb(c *Ctx) (int, int) {
	states, trans := 0, 0
	vals := []uint8{0x00, 0xC7, 0xFF}
	for _, l := range []int{0, 1, 2, 3, 256} {
		addrSet := map[uint16]bool{0: true, 1: true, 2: true, uint16(l - 1): true, uint16(l): true, 0xFFFE: true, 0xFFFF: true}
		var addrs []uint16
		for a := range addrSet {
			addrs = append(addrs, a)
		}
		sort.Slice(addrs, func(i, j int) bool { return addrs[i] < addrs[j] })
		for _, kind := range []string{"DumbMemory", "DumbIO"} {
			if kind == "DumbIO" && l > 256 {
				continue
			}
			type node struct {
				model []uint8
				path  []string
			}
			seen := map[string]bool{}
			start := make([]uint8, l)
			seen[string(start)] = true
			front := []node{{start, nil}}
			for len(front) > 0 {
				cur := front[0]
				front = front[1:]
				type op struct {
					label string
					do    func(dm z80.DumbMemory, dio z80.DumbIO, model []uint8)
				}
				var ops []op
				for _, a := range addrs {
					for _, v := range vals {
						a, v := a, v
						if kind == "DumbIO" && a > 255 {
							continue
						}
						ops = append(ops, op{fmt.Sprintf("Set/Out(%04X,%02X)", a, v), func(dm z80.DumbMemory, dio z80.DumbIO, model []uint8) {
							if kind == "DumbMemory" {
								dm.Set(a, v)
							} else {
								dio.Out(uint8(a), v)
							}
							if int(a) < len(model) {
								model[a] = v
							}
						}})
					}
				}
				if kind == "DumbMemory" {
					for _, a := range addrs {
						for _, blk := range [][]uint8{{}, {0xFF}, {0xC7, 0x00}} {
							if int(a)+len(blk) > l {
								continue // statement: block lying inside the slice
							}
							a, blk := a, blk
							ops = append(ops, op{fmt.Sprintf("Put(%04X,% X)", a, blk), func(dm z80.DumbMemory, dio z80.DumbIO, model []uint8) {
								r := dm.Put(a, blk...)
								copy(model[int(a):], blk)
								if len(r) != len(dm) {
									panic("Put returned a different slice")
								}
							}})
						}
					}
				}
				for _, o := range ops {
					dm := append(z80.DumbMemory{}, cur.model...)
					dio := append(z80.DumbIO{}, cur.model...)
					model := append([]uint8{}, cur.model...)
					path := append(append([]string{}, cur.path...), o.label)
					if p := guard(func() { o.do(dm, dio, model) }); p != nil {
						c.Report("c15/store:"+kind+"-bfs", int64(trans), "", c15Op{kind, l, path}, []string{fmt.Sprintf("len %d, %v: panic %v", l, path, p)})
						return states, trans
					}
					trans++
					for _, a := range addrs {
						var g uint8
						if kind == "DumbMemory" {
							g = dm.Get(a)
						} else if a <= 255 {
							g = dio.In(uint8(a))
						} else {
							continue
						}
						want := uint8(0)
						if int(a) < len(model) {
							want = model[a]
						}
						if g != want {
							c.Report("c15/store:"+kind+"-bfs", int64(trans), "", c15Op{kind, l, path}, []string{fmt.Sprintf("len %d after %v: read(%04X) = %02X, model %02X", l, path, a, g, want)})
							return states, trans
						}
					}
					cont := dm
					if kind == "DumbIO" {
						cont = z80.DumbMemory(dio)
					}
					if string(cont) != string(model) {
						c.Report("c15/store:"+kind+"-bfs", int64(trans), "", c15Op{kind, l, path}, []string{fmt.Sprintf("len %d after %v: contents differ from the model", l, path)})
						return states, trans
					}
					k := string(model)
					if !seen[k] && len(seen) < 4000 {
						seen[k] = true
						front = append(front, node{model, path})
					}
				}
			}
			states += len(seen)
		}
	}
	return states, trans
}
