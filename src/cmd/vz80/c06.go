package main

import (
	"encoding/json"
	"fmt"
	"os"
	"path/filepath"
	"regexp"
	"sort"
	"strconv"
	"strings"

	z80 "github.com/koron-go/z80"
	"github.com/koron-go/z80/internal/verif/obs"
	"github.com/koron-go/z80/internal/verif/refz80"
)

// C06: interrupt requests are accepted, refused, dispatched and retired per
// Z80 rules. TLC-replay engine: the complete labelled state graph TLC
// generates from models/Z80Int.tla is loaded; (1) for every model state and
// every driver action enabled in it, concrete representatives over a data
// lattice are built, the action is performed on the real CPU, the result is
// abstracted and must be one of the model's successors, and the concrete
// obligations of the edge taken are checked; (2) a BFS over the
// implementation's own behaviour from the initial concrete state validates
// every transition it takes against the graph (reachability of the abstract
// states by real executions); (3) all implemented encodings: RETN/RETI
// handlers are notified exactly by ED 45 / ED 4D.
func init() {
	register("C06", checkC06)
	replayers["c06/edge"] = replayC06
	replayers["c06/im0all"] = replayC06IM0
}

type absState struct {
	IFF1, IFF2, EiLast bool
	IM, Depth, NN, NI  int
	Pend, Last         string
}

func (a absState) key() string {
	return fmt.Sprintf("%v %v %v %d %d %d %d %s %s", a.IFF1, a.IFF2, a.EiLast, a.IM, a.Depth, a.NN, a.NI, a.Pend, a.Last)
}

type tlcGraph struct {
	states []absState
	index  map[string]int     // key -> state index
	succ   []map[string][]int // per state: edge label -> successor indexes
	edges  int
	init   int
}

var reNode = regexp.MustCompile(`^(-?\d+) \[label="((?:[^"\\]|\\.)*)"`)
var reEdge = regexp.MustCompile(`^(-?\d+) -> (-?\d+) \[label="((?:[^"\\]|\\.)*)"`)
var reVar = regexp.MustCompile(`(\w+) = (\\"\w+\\"|\w+)`)

func loadTLCGraph(path string) (*tlcGraph, error) {
	raw, err := os.ReadFile(path)
	if err != nil {
		return nil, err
	}
	g := &tlcGraph{index: map[string]int{}, init: -1}
	ids := map[string]int{}
	type e struct{ a, b, l string }
	var es []e
	for _, line := range strings.Split(string(raw), "\n") {
		if m := reEdge.FindStringSubmatch(line); m != nil {
			es = append(es, e{m[1], m[2], m[3]})
			continue
		}
		if m := reNode.FindStringSubmatch(line); m != nil {
			var a absState
			for _, v := range reVar.FindAllStringSubmatch(m[2], -1) {
				val := strings.Trim(v[2], `\"`)
				switch v[1] {
				case "iff1":
					a.IFF1 = val == "TRUE"
				case "iff2":
					a.IFF2 = val == "TRUE"
				case "eiLast":
					a.EiLast = val == "TRUE"
				case "im":
					a.IM, _ = strconv.Atoi(val)
				case "depth":
					a.Depth, _ = strconv.Atoi(val)
				case "nN":
					a.NN, _ = strconv.Atoi(val)
				case "nI":
					a.NI, _ = strconv.Atoi(val)
				case "pend":
					a.Pend = val
				case "last":
					a.Last = val
				}
			}
			if _, dup := ids[m[1]]; dup {
				continue
			}
			ids[m[1]] = len(g.states)
			g.index[a.key()] = len(g.states)
			if a.Last == "Init" {
				g.init = len(g.states)
			}
			g.states = append(g.states, a)
		}
	}
	g.succ = make([]map[string][]int, len(g.states))
	for i := range g.succ {
		g.succ[i] = map[string][]int{}
	}
	for _, x := range es {
		a, ok1 := ids[x.a]
		b, ok2 := ids[x.b]
		if !ok1 || !ok2 {
			return nil, fmt.Errorf("edge refers to unknown node")
		}
		l := x.l
		// Exec(\"NOP\") -> Exec_NOP
		l = strings.NewReplacer(`\"`, "", `\`, "", "(", "_", ")", "").Replace(l)
		g.succ[a][l] = append(g.succ[a][l], b)
		g.edges++
	}
	if g.init < 0 || len(g.states) == 0 {
		return nil, fmt.Errorf("no initial state in %s", path)
	}
	return g, nil
}

// driver alphabet: model instruction -> concrete encodings of that class
type c06Instr struct {
	name  string // model name
	label string // concrete variant label
	code  []uint8
	setup func(s *refz80.State)
}

func c06Instrs() []c06Instr {
	return []c06Instr{
		{"NOP", "NOP", []uint8{0x00}, nil},
		{"NOP", "INC A", []uint8{0x3C}, nil},
		{"NOP", "LDIR repeating (BC=2)", []uint8{0xED, 0xB0}, func(s *refz80.State) { s.B, s.C, s.H, s.L, s.D, s.E = 0, 2, 0x40, 0, 0x50, 0 }},
		{"NOP", "LDIR finishing (BC=1)", []uint8{0xED, 0xB0}, func(s *refz80.State) { s.B, s.C, s.H, s.L, s.D, s.E = 0, 1, 0x40, 0, 0x50, 0 }},
		{"EI", "EI", []uint8{0xFB}, nil},
		{"DI", "DI", []uint8{0xF3}, nil},
		{"HALT", "HALT", []uint8{0x76}, nil},
		{"RETN", "RETN", []uint8{0xED, 0x45}, nil},
		{"RETI", "RETI", []uint8{0xED, 0x4D}, nil},
		{"IM0", "IM 0", []uint8{0xED, 0x46}, nil},
		{"IM1", "IM 1", []uint8{0xED, 0x56}, nil},
		{"IM2", "IM 2", []uint8{0xED, 0x5E}, nil},
		{"LDAI", "LD A,I", []uint8{0xED, 0x57}, nil},
		{"LDAI", "LD A,R", []uint8{0xED, 0x5F}, nil},
	}
}

// c06Point is one point of the data lattice.
type c06Point struct {
	PC, SP   uint16
	I, Vec   uint8
	IM0      []uint8 // mode-0 data
	HaltFlag bool
	// Shape of a maskable request: 0 as the constructors build it for the mode; 1 carries a data byte the
	// mode ignores (mode 1: a device that always drives the bus; the dispatch is still 0038h);
	// 2 mode 2 with an odd vector byte (dispatch target outside the statement; everything else holds)
	Shape int
	// R0: initial refresh register + 1 (0: the base vector's)
	R0 int
}

type c06Edge struct {
	State  absState `json:"state"`
	Instr  string   `json:"instr"`
	PC     uint16   `json:"pc"`
	SP     uint16   `json:"sp"`
	I      uint8    `json:"i"`
	Vec    uint8    `json:"vector"`
	IM0    string   `json:"im0_data"`
	Halt   bool     `json:"halt_flag"`
	Shape  int      `json:"request_shape,omitempty"`
	R0     int      `json:"r0,omitempty"`
	Salt   uint32   `json:"salt"`
	Instrs int      `json:"-"`
}

type c06Runner struct {
	w *Worker
	g *tlcGraph
	// the device's own view of the request it raised (the CPU must not modify the object)
	backing []uint8
	reqCopy []uint8
	reqType z80.InterruptType
}

const c06Handler = 0x2345 // mode-2 handler address stored in the vector table

// build constructs the concrete representative of abstract state a at point p
// with instruction in poked at PC. Returns the request object installed.
func (r *c06Runner) build(a *absState, p *c06Point, in *c06Instr) *z80.Interrupt {
	w := r.w
	base := baseVector(1)
	s := base.S
	s.PC, s.SP, s.I = p.PC, p.SP, p.I
	s.IFF1, s.IFF2, s.IM = a.IFF1, a.IFF2, a.IM
	s.Halt = p.HaltFlag
	if p.R0 > 0 {
		s.R = uint8(p.R0 - 1)
	}
	if in.setup != nil {
		in.setup(&s)
	}
	cs := Case{S: s, Bytes: in.code, IOX: 0x3C, IOY: 0x35}
	// `depth` real return frames on the stack
	for k := 0; k < a.Depth; k++ {
		ra := uint16(0x3000 + 0x20*k)
		cs.Pokes = append(cs.Pokes, Poke{p.SP + uint16(2*k), []uint8{uint8(ra), uint8(ra >> 8)}})
	}
	// mode-2 vector table entry
	va := uint16(p.I)<<8 | uint16(p.Vec&0xFE)
	cs.Pokes = append(cs.Pokes, Poke{va, []uint8{uint8(c06Handler & 0xFF), uint8(c06Handler >> 8)}})
	w.setup(&cs)
	var req *z80.Interrupt
	switch a.Pend {
	case "nmi":
		req = z80.NMIInterrupt()
	case "int":
		switch a.IM {
		case 0:
			req = z80.IM0Interrupt(p.IM0[0], p.IM0[1:]...)
		case 1:
			req = z80.IM1Interrupt()
			if p.Shape == 1 {
				req = z80.IM2Interrupt(p.Vec | 1) // same Type, data present: mode 1 ignores the bus byte
			}
		case 2:
			req = z80.IM2Interrupt(p.Vec)
			if p.Shape == 2 {
				req = z80.IM2Interrupt(p.Vec | 1)
			}
		}
	}
	r.reqCopy = r.reqCopy[:0]
	if req != nil && len(req.Data) > 0 {
		// the request data is a window of a larger array owned by the device: sentinels before and after
		r.backing = append(r.backing[:0], 0xA5, 0x5A)
		r.backing = append(r.backing, req.Data...)
		r.backing = append(r.backing, 0xC3, 0x3C, 0x99)
		req.Data = r.backing[2 : 2+len(req.Data) : len(r.backing)]
		r.reqCopy = append(r.reqCopy[:0], r.backing...)
	}
	r.reqType = 0
	if req != nil {
		r.reqType = req.Type
	}
	w.cpu.Interrupt = req
	return req
}

// replayEdge performs Step(in) from the representative of a at p and checks
// refinement + concrete obligations. Returns (diff, signature, skipped).
func (r *c06Runner) replayEdge(si int, p *c06Point, in *c06Instr) ([]string, string, bool) {
	g, w := r.g, r.w
	a := &g.states[si]
	succ := g.succ[si]
	var allowed []int
	allowed = append(allowed, succ["AcceptNMI"]...)
	allowed = append(allowed, succ["AcceptINT"]...)
	allowed = append(allowed, succ["Exec_"+in.name]...)
	if len(allowed) == 0 {
		return nil, "", true // driver action not enabled in this model state
	}
	req := r.build(a, p, in)
	pre := fromCPU(&w.cpu)
	preMem := func(addr uint16) uint8 { return w.rmem.Peek(addr) } // rmem untouched until the model runs
	var pan interface{}
	func() {
		defer func() { pan = recover() }()
		w.liveStep()
	}()
	if pan != nil {
		return []string{fmt.Sprintf("Step panicked: %v", pan)}, "", false
	}
	got := fromCPU(&w.cpu)
	accepted := req != nil && w.cpu.Interrupt == nil
	if req != nil {
		// the request object belongs to the device that raised it: accepted or refused, it must be left as it was
		if req.Type != r.reqType {
			return []string{"the Step modified the Type of the request object"}, "", false
		}
		if len(r.reqCopy) > 0 && (len(req.Data) != len(r.reqCopy)-5 || string(r.backing) != string(r.reqCopy)) {
			return []string{fmt.Sprintf("the Step modified the request's Data (or the device's array around it): before % X after % X, len(Data) %d", r.reqCopy, r.backing, len(req.Data))}, "", false
		}
		if m, ok := w.cpu.Memory.(*obs.Mem); !ok || m != w.imem {
			return []string{"CPU.Memory was not restored after the Step"}, "", false
		}
	}
	// ---- abstract the result ----
	var b absState
	b.IFF1, b.IFF2, b.IM = got.IFF1, got.IFF2, got.IM
	b.NN, b.NI = w.retn.n, w.reti.n
	delta := int(int16(pre.SP - got.SP))
	switch delta {
	case 2:
		b.Depth = a.Depth + 1
	case 0:
		b.Depth = a.Depth
	case -2:
		b.Depth = a.Depth - 1
	default:
		return []string{fmt.Sprintf("SP changed by %d (from %04X to %04X)", -delta, pre.SP, got.SP)}, "", false
	}
	switch {
	case accepted && a.Pend == "nmi":
		b.Last, b.Pend = "AcceptNMI", "none"
	case accepted:
		b.Last, b.Pend = "AcceptINT", "none"
	default:
		b.Last, b.Pend = "Exec_"+in.name, a.Pend
		b.EiLast = in.name == "EI"
		if w.cpu.Interrupt != req {
			return []string{"the refused/absent request object was replaced or dropped: CPU.Interrupt changed although no request was accepted"}, "", false
		}
	}
	var d []string
	ti, known := g.index[b.key()]
	isSucc := false
	if known {
		for _, x := range allowed {
			if x == ti {
				isSucc = true
			}
		}
	}
	if !isSucc {
		var opts []string
		for _, x := range allowed {
			opts = append(opts, "{"+g.states[x].key()+"}")
		}
		sort.Strings(opts)
		d = append(d, fmt.Sprintf("not a refinement of the model: from {%s} under Step(%s) the implementation reached {%s}; the model allows only %s", a.key(), in.label, b.key(), strings.Join(opts, " ")))
	}
	// ---- concrete obligations of the edge taken ----
	sig := ""
	if accepted {
		exp := pre
		exp.SP = pre.SP - 2
		exp.IFF1 = false
		retLo, retHi := w.imem.Peek(exp.SP), w.imem.Peek(exp.SP+1)
		pushed := uint16(retHi)<<8 | uint16(retLo)
		wantPush := []uint16{pre.PC}
		var wantReads []obs.Access
		mode0 := false
		switch {
		case a.Pend == "nmi":
			exp.PC = 0x0066
			exp.IFF2 = pre.IFF1
		case a.IM == 1:
			exp.PC = 0x0038
			exp.IFF2 = false
		case a.IM == 2:
			va := uint16(p.I)<<8 | uint16(p.Vec&0xFE)
			// the vector word as it is after the push (the push may overlap the table)
			exp.PC = uint16(w.imem.Peek(va)) | uint16(w.imem.Peek(va+1))<<8
			exp.IFF2 = false
			wantReads = []obs.Access{{Addr: va, Val: w.imem.Peek(va)}, {Addr: va + 1, Val: w.imem.Peek(va + 1)}}
			if p.Shape == 2 {
				// odd vector: where the handler address comes from is outside the statement
				exp.PC = got.PC
				wantReads = w.imem.Reads
				if len(wantReads) != 2 {
					d = append(d, fmt.Sprintf("mode 2 acceptance reads one 16-bit table entry; got reads %s", fmtAcc(w.imem.Reads)))
				}
			}
		case a.IM == 0:
			mode0 = true
			exp.IFF2 = false
			if p.IM0[0] == 0xCD {
				exp.PC = uint16(p.IM0[1]) | uint16(p.IM0[2])<<8
			} else {
				exp.PC = uint16(p.IM0[0] & 0x38)
			}
			// the return address of mode 0 is C07's subject: PC (Z80) or PC+len (this project, known finding there)
			wantPush = append(wantPush, pre.PC+uint16(len(p.IM0)))
		}
		// the 7-bit counter and the halted indication are not compared across an acceptance (DESIGN §6); bit 7 of
		// R belongs to the program and survives it
		exp.R, exp.Halt = exp.R&0x80|got.R&0x7F, got.Halt
		if got != exp {
			d = append(d, fmt.Sprintf("accepted %s in mode %d: want %v got %v", a.Pend, a.IM, stateMap(&exp), stateMap(&got)))
		}
		okPush := false
		for _, v := range wantPush {
			if pushed == v {
				okPush = true
			}
		}
		// memory: exactly the two stack bytes may have changed
		for _, wr := range w.imem.Writes {
			if wr.Addr != exp.SP && wr.Addr != exp.SP+1 {
				d = append(d, fmt.Sprintf("acceptance wrote %02X to %04X (only the return address at %04X/%04X may be written)", wr.Val, wr.Addr, exp.SP, exp.SP+1))
			}
		}
		if !okPush {
			msg := fmt.Sprintf("pushed return address: want %04X got %04X (bytes at %04X,%04X)", pre.PC, pushed, exp.SP, exp.SP+1)
			// known finding: the mode-0 overlay drops stack writes that land on [PC, PC+len)
			if mode0 && len(d) == 0 {
				ov := func(addr uint16) bool { return addr-pre.PC < uint16(len(p.IM0)) }
				dropped := true
				for i, addr := range []uint16{exp.SP, exp.SP + 1} {
					want := []uint8{uint8(wantPush[1]), uint8(wantPush[1] >> 8)}[i]
					if ov(addr) {
						if w.imem.Peek(addr) != preMem(addr) {
							dropped = false
						}
					} else if w.imem.Peek(addr) != want {
						dropped = false
					}
				}
				if dropped && (ov(exp.SP) || ov(exp.SP+1)) {
					sig = "im0-overlay-shadows-stack"
				}
			}
			d = append(d, msg)
		}
		if mode0 {
			// instruction bytes come from the request; reads of program memory are not expected for RST/CALL
			wantReads = nil
		}
		if !mode0 && !obs.SameMultiset(w.imem.Reads, wantReads) {
			d = append(d, fmt.Sprintf("acceptance must not execute or fetch a program instruction: memory reads want %s got %s", fmtAcc(wantReads), fmtAcc(w.imem.Reads)))
		}
		if mode0 {
			for _, rd := range w.imem.Reads {
				d = append(d, fmt.Sprintf("mode-0 acceptance read program memory at %04X", rd.Addr))
				break
			}
		}
		if w.retn.n != 0 || w.reti.n != 0 {
			d = append(d, "handler notified during acceptance")
		}
		if len(w.iio.Log) != 0 {
			d = append(d, "port access during acceptance")
		}
	} else {
		// executed instruction: must equal the Step without a request (refz80), handlers per model
		cur := Case{S: pre}
		res := &w.res
		res.Panic, res.RefPanic = nil, nil
		res.Exp = pre
		w.safeRef(res)
		res.Got = got
		saved := w.cpu.Interrupt
		w.cpu.Interrupt = nil
		if dd := w.compare(&cur, res, AspState|AspI|AspMem|AspReads|AspWrites|AspPortLog|AspHandlers); dd != nil {
			d = append(d, "executed instruction differs from the Step without a request:")
			d = append(d, dd...)
		}
		w.cpu.Interrupt = saved
		if len(d) == 0 {
			// the same Step again, and a device raises an NMI from inside the k-th callback of the Step (every
			// memory access, port access and RETN/RETI notification in turn; a daisy-chained device raises its
			// next request exactly when it sees the RETI): the Step has already decided to execute the
			// instruction, so afterwards exactly that request is pending (it is not lost, and a refused
			// request that was pending before is not put back over it)
			total := 1
			for k := 0; k < total && len(d) == 0; k++ {
				r.build(a, p, in)
				inj := z80.NMIInterrupt()
				n := 0
				fired := false
				tick := func() {
					if n == k {
						fired = true
						w.cpu.Interrupt = inj
					}
					n++
				}
				w.imem.Hook = func(bool, uint16) { tick() }
				w.iio.Hook = func(bool, uint8) { tick() }
				hk := &hookHandler{tick}
				w.cpu.RETNHandler, w.cpu.RETIHandler = hk, hk
				func() {
					defer func() { pan = recover() }()
					w.liveStep()
				}()
				w.imem.Hook, w.iio.Hook = nil, nil
				if k == 0 {
					total = n
				}
				if pan != nil {
					d = append(d, fmt.Sprintf("Step panicked when a device raised an NMI from callback %d of the Step: %v", k, pan))
				} else if fired && w.cpu.Interrupt != inj {
					d = append(d, fmt.Sprintf("a device raised an NMI from inside callback %d of %d of this Step (memory/port accesses and RETN/RETI notifications counted in order); afterwards CPU.Interrupt is %v instead of that request (lost or overwritten)", k, total, describeReq(w.cpu.Interrupt)))
				}
			}
		}
	}
	if len(d) == 0 {
		return nil, "", false
	}
	return d, sig, false
}

// hookHandler is a RETN/RETI handler that only reports the notification to the harness.
type hookHandler struct{ f func() }

func (h *hookHandler) RETNHandle() { h.f() }
func (h *hookHandler) RETIHandle() { h.f() }

func describeReq(r *z80.Interrupt) string {
	if r == nil {
		return "nil"
	}
	return fmt.Sprintf("{Type %d, Data % X}", r.Type, r.Data)
}

func c06Lattice(quick bool) []c06Point {
	def := c06Point{PC: 0x0100, SP: 0x8000, I: 0x12, Vec: 0x40, IM0: []uint8{0xFF}}
	pcs := []uint16{0x0100, 0x0000, 0x8000, 0xFFFC, 0xFFFD, 0xFFFE, 0xFFFF}
	sps := func(pc uint16) []uint16 {
		return []uint16{0x8000, 0x0000, 0x0001, 0x0002, 0xFFFF, pc + 1, pc + 2, pc + 3}
	}
	is := []uint8{0x00, 0x01, 0x80, 0xFF}
	vecs := []uint8{0x00, 0x02, 0x40, 0x7E, 0x80, 0xFE}
	datas := [][]uint8{{0xC7}, {0xCF}, {0xD7}, {0xDF}, {0xE7}, {0xEF}, {0xF7}, {0xFF}, {0xCD, 0x34, 0x12}, {0xCD, 0xFF, 0xFF}}
	var out []c06Point
	if quick {
		out = append(out, def)
		for _, pc := range pcs[1:] {
			p := def
			p.PC = pc
			out = append(out, p)
			p.IM0 = datas[8]
			out = append(out, p)
		}
		for _, pc := range []uint16{0x0100, 0xFFFE} {
			for _, sp := range sps(pc)[1:] {
				p := def
				p.PC, p.SP = pc, sp
				out = append(out, p)
				p.IM0 = datas[8]
				out = append(out, p)
			}
		}
		for _, i := range is {
			for _, v := range vecs {
				p := def
				p.I, p.Vec = i, v
				out = append(out, p)
			}
		}
		for _, dta := range datas {
			p := def
			p.IM0 = dta
			out = append(out, p)
		}
		p := def
		p.HaltFlag = true
		out = append(out, p)
		// vector table overlapping the stack
		p = def
		p.I, p.Vec, p.SP = 0x7F, 0xFE, 0x8000
		out = append(out, p)
		for _, v := range vecs {
			for shape := 1; shape <= 2; shape++ {
				p = def
				p.Vec, p.Shape = v, shape
				out = append(out, p)
			}
		}
		for _, r0 := range []int{0x00, 0x7E, 0x7F, 0x80, 0xFE, 0xFF} {
			for _, dta := range [][]uint8{datas[7], datas[8]} {
				p = def
				p.R0, p.IM0 = r0+1, dta
				out = append(out, p)
			}
		}
		return out
	}
	for _, pc := range pcs {
		for _, sp := range sps(pc) {
			for _, halt := range []bool{false, true} {
				for _, i := range is {
					for _, v := range vecs {
						out = append(out, c06Point{PC: pc, SP: sp, I: i, Vec: v, IM0: datas[7], HaltFlag: halt})
					}
				}
				for _, dta := range datas {
					out = append(out, c06Point{PC: pc, SP: sp, I: 0x12, Vec: 0x40, IM0: dta, HaltFlag: halt})
				}
			}
		}
	}
	p := def
	p.I, p.Vec, p.SP = 0x7F, 0xFE, 0x8000
	out = append(out, p)
	for r0 := 0; r0 < 256; r0++ {
		for _, dta := range [][]uint8{datas[7], datas[8]} {
			p = def
			p.R0, p.IM0 = r0+1, dta
			out = append(out, p)
		}
	}
	for _, pc := range pcs {
		for _, i := range is {
			for _, v := range vecs {
				for shape := 1; shape <= 2; shape++ {
					out = append(out, c06Point{PC: pc, SP: 0x8000, I: i, Vec: v, IM0: datas[7], Shape: shape})
				}
			}
		}
	}
	return out
}

func checkC06(c *Ctx) {
	path := os.Getenv("VERIF_C06_GRAPH")
	fresh := true
	if path == "" {
		path = filepath.Join(c.Verif, "models", "Z80Int.dot")
		fresh = false
	}
	g, err := loadTLCGraph(path)
	if err != nil {
		fmt.Println("framework error: cannot load the TLC state graph:", err)
		c.Capped("framework error: " + err.Error())
		return
	}
	c.Set("tlc_graph", map[string]interface{}{"file": path, "generated_by_tlc_in_this_run": fresh, "distinct_states": len(g.states), "edges": g.edges})
	r := &c06Runner{w: newWorker(obsBackground(c)), g: g}
	lat := c06Lattice(c.Quick())
	instrs := c06Instrs()
	c.Rule = fmt.Sprintf("TLC generates the complete state graph of models/Z80Int.tla (MaxNest=3; %d distinct states, %d edges; model invariants AcceptClears, NotifyExact, NoSkip, NMIAlways, MaskRespected checked by TLC). (1) for every model state x %d concrete instruction variants of the 10 model instructions x %d data-lattice points (PC incl. wrap, SP incl. wrap and stack overlapping PC, I x vector, mode-0 data RST 00..38 and CALL nn, HALT flag): build the concrete representative (depth = real return frames, pend = a real request object matching IM), perform one real Step, abstract the result and require it to be a TLC successor of the state under that driver action; then check the concrete obligations of the edge taken (target PC, pushed address, IFF1/IFF2, request consumed or identical object still pending, no program fetch on acceptance, executed instruction identical to refz80's Step without request, handler counters). (2) BFS over the implementation's own transitions from the initial concrete state, every transition validated against the graph. (3) every implemented encoding: RETN/RETI handlers notified exactly by ED 45/ED 4D (also with nil handlers). (4) mode 0: every implemented encoding except CALL/RST delivered as request data x quick lattice x 4 F, compared with refz80 executing that instruction (registers, flags, writes, ports, notifications; IFF1=IFF2=0; no program-memory read inside [PC,PC+len); PC/R/halted not compared). Request shapes: constructor-built, mode 1 with a data byte, mode 2 with an odd vector (dispatch target not judged). After every executed (not accepting) Step the same Step is repeated with a device raising an NMI from the k-th callback for every k (memory and port accesses, RETN/RETI notifications): that request must be what is pending afterwards. (7) an NMI is accepted as usual with CPU.IM outside 0..2. (5) the request constructors for all 256 bytes: documented type and data, storage of its own per call (in-place edits and appends do not reach other requests). The implementation BFS reuses one request object per kind with re-pointed Data, installs a fresh Memory object before every Step (accesses through an older object are errors) and checks the dispatch target of every acceptance. Non-trivial = an edge with a pending request or an interrupt-control instruction (counted).", len(g.states), g.edges, len(instrs), len(lat))
	c.Bound = "nesting depth 3; data lattice " + c.Tier
	var n, nt, skipped int64
	failedKeys := map[string]bool{}
	for si := range g.states {
		for ii := range instrs {
			in := &instrs[ii]
			for pi := range lat {
				p := &lat[pi]
				d, sig, skip := r.replayEdge(si, p, in)
				if skip {
					skipped++
					break
				}
				n++
				a := &g.states[si]
				if a.Pend != "none" || in.name != "NOP" {
					nt++
				}
				if d == nil && (n == 1 || (a.Pend != "none" && a.Depth > 0 && si%97 == 11 && pi == 3 && ii == 7)) {
					c.Sample(map[string]interface{}{"edge": c06Edge{State: *a, Instr: in.label, PC: p.PC, SP: p.SP, I: p.I, Vec: p.Vec, IM0: hexBytes(p.IM0), Halt: p.HaltFlag, Shape: p.Shape, R0: p.R0, Salt: c.Salt}, "post_state": stateMap(func() *refz80.State { s := fromCPU(&r.w.cpu); return &s }())})
				}
				if d != nil {
					key := fmt.Sprintf("c06/edge:%s/IM%d/%s", a.Pend, a.IM, in.name)
					if sig == "" && failedKeys[key] {
						continue
					}
					failedKeys[key] = true
					e := c06Edge{State: *a, Instr: in.label, PC: p.PC, SP: p.SP, I: p.I, Vec: p.Vec, IM0: hexBytes(p.IM0), Halt: p.HaltFlag, Shape: p.Shape, R0: p.R0, Salt: c.Salt}
					c.Report(key, int64(si)*1000000+int64(ii)*10000+int64(pi), sig, e, cloneStrings(append([]string{fmt.Sprintf("model state {%s}, Step(%s), PC=%04X SP=%04X I=%02X vector=%02X mode-0 data=%s", a.key(), in.label, p.PC, p.SP, p.I, p.Vec, hexBytes(p.IM0))}, d...)))
				}
			}
		}
	}
	c.Evaluations += n
	c.Nontrivial += nt
	c.Traces += n
	c.Set("driver_actions_not_enabled_in_model", skipped)
	// (2) BFS over the implementation's own behaviour
	reach, trans := c06BFS(c, r)
	c.Set("abstract_states_reached_by_implementation", reach)
	c.Set("implementation_transitions_validated", trans)
	c.Traces += int64(trans)
	c.Evaluations += int64(trans)
	c.Nontrivial += int64(trans)
	c.States = int64(len(g.states))
	c.Transitions = int64(g.edges)
	// (3) notifications at no other time
	c06Notifications(c)
	// (4) mode 0 with every implemented instruction as request data
	c06IM0All(c)
	// (5) the request constructors hand every caller an object of its own
	c06Constructors(c)
	// (7) "an NMI is always accepted": also when the exported IM field holds a value outside 0..2
	c06NMIAnyMode(c)
	// (6) handlers (and port devices) of unusual Go shapes
	runDeviceShapes(c, "c06/shapes")
	c.Exhaustive = true
	c.Assume("EI: acceptance at the next Step or one instruction later are both model successors; RETI: IFF1 unchanged or copied from IFF2 (DESIGN §6)")
	c.Assume("mode 0: only RST n and CALL nn are used as supplied instructions; the pushed return address may be PC or PC+len (the latter is C07's known finding)")
	c.Assume("mode 2 with an odd vector, empty request data, IM outside 0..2 and unknown request types are outside this property (C12: totality)")
	c.Assume("R and the halted indication are not compared across an acceptance")
}

// c06BFS explores the abstract states the implementation itself reaches from
// the initial concrete state; successor = copy of the concrete snapshot + one
// driver action on the real CPU. Every transition must be an edge of the TLC graph.
func c06BFS(c *Ctx, r *c06Runner) (int, int) {
	g, w := r.g, r.w
	type snap struct {
		st    refz80.State
		cpu   z80.CPU // the real CPU value incl. any unexported field: hidden state travels along the history
		has   bool
		mem   *obs.Mem
		req   *z80.Interrupt
		abs   int
		depth int
		path  []string
		// hist: which kinds of request the history has already accepted (bit 0 NMI, 1..3 mode 0..2). Part of
		// the search key: state an implementation keeps from an earlier acceptance (a cached overlay, a
		// latch) only shows in histories that accept the same kind again.
		hist uint8
	}
	bg := obsBackground(c)
	m0 := obs.NewMem(bg)
	base := baseVector(0)
	s0 := base.S
	s0.PC, s0.SP, s0.I = 0x0100, 0x8000, 0x12
	s0.IFF1, s0.IFF2, s0.IM = false, false, 0
	va := uint16(0x1240)
	m0.Poke(va, uint8(c06Handler&0xFF), uint8(c06Handler>>8))
	w.cpu = z80.CPU{} // a CPU without any history
	seen := map[[2]int]bool{{g.init, 0}: true}
	absSeen := map[int]bool{g.init: true}
	front := []*snap{{st: s0, mem: m0, abs: g.init}}
	instrs := c06Instrs()
	trans := 0
	type act struct {
		raise string
		in    *c06Instr
	}
	var acts []act
	acts = append(acts, act{raise: "nmi"}, act{raise: "int"})
	for i := range instrs {
		if instrs[i].setup == nil {
			acts = append(acts, act{in: &instrs[i]})
		}
	}
	// One request object per kind for the whole search: a device reuses its object and re-points Data for
	// every request. Whatever an implementation caches in or next to the object must not outlive a request.
	intObj := &z80.Interrupt{Type: z80.IMType}
	nmiObj := z80.NMIInterrupt()
	rsts := []uint8{0xFF, 0xD7, 0xEF, 0xC7}
	intData := func(im int, variant int) []uint8 {
		switch im {
		case 0:
			return []uint8{rsts[variant%len(rsts)]}
		case 1:
			return nil
		}
		return []uint8{0x40}
	}
	gen := 0
	for len(front) > 0 {
		cur := front[0]
		front = front[1:]
		a := g.states[cur.abs]
		for _, ac := range acts {
			var label string
			var b absState
			stepped := false
			nm := obs.NewMem(bg)
			nm.CopyFrom(cur.mem)
			ns := cur.st
			nreq := cur.req
			nhist := cur.hist
			if ac.raise != "" {
				label = map[string]string{"nmi": "RaiseNMI", "int": "RaiseINT"}[ac.raise]
				if len(g.succ[cur.abs][label]) == 0 {
					continue
				}
				if ac.raise == "nmi" {
					nreq = nmiObj
				} else {
					nreq = intObj
				}
				b = a
				b.Pend, b.Last, b.NN, b.NI = ac.raise, label, 0, 0
			} else {
				if len(g.succ[cur.abs]["Exec_"+ac.in.name])+len(g.succ[cur.abs]["AcceptNMI"])+len(g.succ[cur.abs]["AcceptINT"]) == 0 {
					continue
				}
				// the device presents the data that fits the current mode; a fresh slice every time, in the same object
				variant := len(cur.path)
				if nreq == intObj {
					intObj.Data = append([]uint8(nil), intData(ns.IM, variant)...)
				}
				w.imem.CopyFrom(nm)
				w.imem.Poke(ns.PC, ac.in.code...)
				w.iio.Reset()
				w.retn.n, w.reti.n = 0, 0
				if cur.has {
					// continue with a copy of the very CPU value that executed the history so far
					w.cpu = cur.cpu
					w.cpu.Memory, w.cpu.IO = w.imem, w.iio
					w.cpu.RETNHandler, w.cpu.RETIHandler = &w.retn, &w.reti
				} else {
					toCPU(&ns, &w.cpu)
				}
				w.cpu.Interrupt = nreq
				// the embedder installs a new Memory object (same contents) before every Step: all accesses of
				// this Step must go through it, none through an object installed earlier
				gen++
				gm := &genMem{m: w.imem, gen: gen, cur: &gen}
				w.cpu.Memory = gm
				var pan interface{}
				func() {
					defer func() { pan = recover() }()
					w.liveStep()
				}()
				if pan != nil {
					c.Report("c06/bfs", int64(trans), "", map[string]interface{}{"path": cur.path, "step": ac.in.label}, []string{fmt.Sprintf("panic: %v", pan)})
					continue
				}
				if cm, ok := w.cpu.Memory.(*genMem); !ok || cm != gm {
					c.Report("c06/bfs:memory-field", int64(trans), "", map[string]interface{}{"path": cur.path, "step": ac.in.label}, []string{fmt.Sprintf("history %v then Step(%s): CPU.Memory is not the object the embedder installed before the Step", cur.path, ac.in.label)})
					continue
				}
				got := fromCPU(&w.cpu)
				accepted := nreq != nil && w.cpu.Interrupt == nil
				if accepted {
					want := uint16(0x0066)
					if nreq == intObj {
						switch ns.IM {
						case 0:
							want = uint16(intObj.Data[0] & 0x38)
						case 1:
							want = 0x0038
						default:
							want = c06Handler
						}
					}
					if got.PC != want {
						c.Report("c06/bfs:target", int64(trans), "", map[string]interface{}{"path": cur.path, "step": ac.in.label, "request": describeReq(nreq)}, []string{fmt.Sprintf("history %v: request %s accepted in mode %d continues at %04X, want %04X (the same request object was used, with other data, earlier in the history)", cur.path, describeReq(nreq), ns.IM, got.PC, want)})
						continue
					}
				}
				b.IFF1, b.IFF2, b.IM = got.IFF1, got.IFF2, got.IM
				b.NN, b.NI = w.retn.n, w.reti.n
				b.Depth = a.Depth + int(int16(ns.SP-got.SP))/2
				switch {
				case accepted && a.Pend == "nmi":
					b.Last, b.Pend, label = "AcceptNMI", "none", "AcceptNMI"
					nhist |= 1
				case accepted:
					b.Last, b.Pend, label = "AcceptINT", "none", "AcceptINT"
					if cur.st.IM >= 0 && cur.st.IM <= 2 {
						nhist |= 2 << uint(cur.st.IM)
					}
				default:
					b.Last, b.Pend, label = "Exec_"+ac.in.name, a.Pend, "Exec_"+ac.in.name
					b.EiLast = ac.in.name == "EI"
				}
				ns = got
				nreq = w.cpu.Interrupt
				nm.CopyFrom(w.imem)
				stepped = true
			}
			trans++
			ti, ok := g.index[b.key()]
			isEdge := false
			if ok {
				for _, x := range g.succ[cur.abs][label] {
					if x == ti {
						isEdge = true
					}
				}
			}
			path := append(append([]string{}, cur.path...), func() string {
				if ac.raise != "" {
					return label
				}
				return "Step(" + ac.in.label + ")->" + label
			}())
			if !isEdge {
				c.Report("c06/bfs:"+label, int64(len(path)), "", map[string]interface{}{"path": path}, []string{fmt.Sprintf("history %v: the implementation moved from {%s} to {%s}, which is not an edge %s of the TLC graph", path, a.key(), b.key(), label)})
				continue
			}
			absSeen[ti] = true
			if k := [2]int{ti, int(nhist)}; !seen[k] {
				seen[k] = true
				nsn := &snap{st: ns, mem: nm, req: nreq, abs: ti, path: path, hist: nhist}
				if stepped {
					nsn.cpu, nsn.has = w.cpu, true
				} else {
					nsn.cpu, nsn.has = cur.cpu, cur.has
				}
				front = append(front, nsn)
			}
		}
	}
	c.Set("implementation_bfs_search_states", len(seen))
	return len(absSeen), trans
}

// c06Constructors: NMIInterrupt, IM0Interrupt, IM1Interrupt and IM2Interrupt build a request with the
// documented type and data, and every call returns storage of its own: a device that edits its request in
// place (a programmable vector register: req.Data[0] = v) must not change the request of any other device,
// built earlier or later with the same bytes, nor may appending to Data reach foreign memory.
func c06Constructors(c *Ctx) {
	var n int64
	bad := func(what string, v int, msg string) {
		c.Report("c06/constructors:"+what, int64(v), "", map[string]interface{}{"constructor": what, "byte": v}, []string{msg})
	}
	for v := 0; v < 256; v++ {
		b := uint8(v)
		type mk struct {
			name string
			f    func() *z80.Interrupt
			want []uint8
		}
		for _, m := range []mk{
			{"IM2Interrupt", func() *z80.Interrupt { return z80.IM2Interrupt(b) }, []uint8{b}},
			{"IM0Interrupt(d)", func() *z80.Interrupt { return z80.IM0Interrupt(b) }, []uint8{b}},
			{"IM0Interrupt(d, n, n)", func() *z80.Interrupt { return z80.IM0Interrupt(b, b^0xFF, 0x12) }, []uint8{b, b ^ 0xFF, 0x12}},
		} {
			r1, r2 := m.f(), m.f()
			n++
			if r1 == r2 {
				bad(m.name, v, fmt.Sprintf("%s(%02X) returned the same object twice", m.name, b))
				continue
			}
			if r1.Type != z80.IMType || string(r1.Data) != string(m.want) || string(r2.Data) != string(m.want) {
				bad(m.name, v, fmt.Sprintf("%s(%02X): Type %d Data % X, want Type %d Data % X", m.name, b, r1.Type, r1.Data, z80.IMType, m.want))
				continue
			}
			// in-place edit of the first request
			for i := range r1.Data {
				r1.Data[i] ^= 0x5A
			}
			r3 := m.f()
			if string(r2.Data) != string(m.want) || string(r3.Data) != string(m.want) {
				bad(m.name, v, fmt.Sprintf("%s(%02X): after the owner of one request edited its Data in place (XOR 5A), another request built with the same bytes reads % X and a newly built one % X (want % X): the constructors share storage", m.name, b, r2.Data, r3.Data, m.want))
				continue
			}
			// appending to one request's data must not reach another's
			r2.Data = append(r2.Data, 0xEE)
			r4 := m.f()
			r4.Data = append(r4.Data, 0x77)
			if r2.Data[len(r2.Data)-1] != 0xEE || string(r3.Data) != string(m.want) {
				bad(m.name, v, fmt.Sprintf("%s(%02X): appending to the Data of one request changed another", m.name, b))
			}
		}
	}
	for _, m := range []struct {
		name string
		f    func() *z80.Interrupt
		t    z80.InterruptType
	}{{"NMIInterrupt", z80.NMIInterrupt, z80.NMIType}, {"IM1Interrupt", z80.IM1Interrupt, z80.IMType}} {
		r1, r2 := m.f(), m.f()
		n++
		if r1 == r2 || r1.Type != m.t || len(r1.Data) != 0 {
			bad(m.name, 0, fmt.Sprintf("%s(): same object twice (%v), Type %d (want %d), Data % X (want none)", m.name, r1 == r2, r1.Type, m.t, r1.Data))
			continue
		}
		r1.Type = z80.InterruptType(9)
		if r3 := m.f(); r2.Type != m.t || r3.Type != m.t {
			bad(m.name, 0, m.name+"(): editing one request changed another")
		}
	}
	c.Evaluations += n
	c.Traces += n
	c.Nontrivial += n
}

// c06NMIAnyMode: the interrupt mode does not concern the NMI. IM is an exported int; whatever an embedder
// left in it (-1 for "unset", an unmasked snapshot byte), an NMI is accepted exactly as in modes 0..2.
func c06NMIAnyMode(c *Ctx) {
	w := newWorker(obsBackground(c))
	var n int64
	for _, im := range []int{-1, 3, 4, 7, 255, 1 << 20, -1 << 20} {
		for iff := 0; iff < 4; iff++ {
			for _, halt := range []bool{false, true} {
				base := baseVector(1)
				s := base.S
				s.PC, s.SP, s.IM = 0x0100, 0x8000, im
				s.IFF1, s.IFF2, s.Halt = iff&1 != 0, iff&2 != 0, halt
				cs := Case{S: s, Bytes: []uint8{0x00}}
				w.setup(&cs)
				req := z80.NMIInterrupt()
				w.cpu.Interrupt = req
				pan := c02Step(&w.cpu)
				got := fromCPU(&w.cpu)
				n++
				exp := s
				exp.PC, exp.SP, exp.IFF1, exp.IFF2 = 0x0066, 0x7FFE, false, s.IFF1
				exp.R, exp.Halt = got.R, got.Halt
				if pan != nil || w.cpu.Interrupt != nil || got != exp || w.imem.Peek16(0x7FFE) != 0x0100 {
					c.Report("c06/nmi-any-mode", int64(im), "", map[string]interface{}{"im": im, "iff1": s.IFF1, "iff2": s.IFF2}, []string{fmt.Sprintf("NMI pending with CPU.IM=%d (outside 0..2), IFF1=%v IFF2=%v: accepted=%v, panic %v; want %v got %v, pushed %04X (want 0100)", im, s.IFF1, s.IFF2, w.cpu.Interrupt == nil, pan, stateMap(&exp), stateMap(&got), w.imem.Peek16(0x7FFE))})
					break
				}
			}
		}
	}
	c.Evaluations += n
	c.Traces += n
	c.Nontrivial += n
}

// genMem forwards to m and reports (by panicking: the access is a defect, not a state to continue from)
// any access made through it after a newer object has been installed.
type genMem struct {
	m   *obs.Mem
	gen int
	cur *int
}

func (g *genMem) Get(a uint16) uint8 {
	if g.gen != *g.cur {
		panic(fmt.Sprintf("memory read of %04X went through a Memory object the embedder had replaced %d Step(s) earlier", a, *g.cur-g.gen))
	}
	return g.m.Get(a)
}

func (g *genMem) Set(a uint16, v uint8) {
	if g.gen != *g.cur {
		panic(fmt.Sprintf("memory write of %04X went through a Memory object the embedder had replaced %d Step(s) earlier", a, *g.cur-g.gen))
	}
	g.m.Set(a, v)
}

// c06Notifications: for every implemented encoding, the RETN/RETI handlers
// are called exactly as often as the model says (1 for ED 45 / ED 4D, else
// 0), and nil handlers are tolerated.
func c06Notifications(c *Ctx) {
	set, err := implementedSet(c)
	if err != nil {
		c.Capped("framework error: " + err.Error())
		return
	}
	w := newWorker(obsBackground(c))
	var n int64
	for i := range set.Encs {
		e := &set.Encs[i]
		for k := 0; k < 4; k++ {
			for _, sp := range []uint16{0x8000, 0xFFFE, 0xFFFF, 0x0000} {
				p := baseVector(k)
				p.S.SP = sp
				var cs Case
				materialise(&p, e, &cs)
				res := w.stepBoth(&cs)
				n++
				if d := w.compare(&cs, res, AspHandlers); d != nil {
					c.Report("c06/notify:"+e.Name, int64(i), "", cs.toJSON(c.Salt), cloneStrings(append([]string{"encoding " + e.Name}, d...)))
				}
			}
		}
	}
	// nil handlers
	for _, code := range [][]uint8{{0xED, 0x45}, {0xED, 0x4D}} {
		cpu := z80.CPU{Memory: make(z80.DumbMemory, 65536)}
		cpu.PC, cpu.SP = 0x100, 0x8000
		copy(cpu.Memory.(z80.DumbMemory)[0x100:], code)
		var pan interface{}
		func() {
			defer func() { pan = recover() }()
			liveStep(&cpu)
		}()
		n++
		if pan != nil || cpu.SP != 0x8002 {
			c.Report("c06/notify:nil-handler", 0, "", map[string]string{"bytes": hexBytes(code)}, []string{fmt.Sprintf("RETN/RETI with nil handler: panic=%v SP=%04X", pan, cpu.SP)})
		}
		// what RETN does to the flip-flops does not depend on anybody listening
		for iff := 0; iff < 4 && code[1] == 0x45; iff++ {
			c2 := z80.CPU{Memory: make(z80.DumbMemory, 65536)}
			c2.PC, c2.SP = 0x100, 0x8000
			c2.IFF1, c2.IFF2 = iff&1 != 0, iff&2 != 0
			copy(c2.Memory.(z80.DumbMemory)[0x100:], code)
			p2 := c02Step(&c2)
			n++
			if p2 != nil || c2.IFF1 != (iff&2 != 0) || c2.IFF2 != (iff&2 != 0) {
				c.Report("c06/notify:nil-handler", int64(iff+1), "", map[string]interface{}{"bytes": hexBytes(code), "iff1": iff&1 != 0, "iff2": iff&2 != 0}, []string{fmt.Sprintf("RETN without a registered handler, IFF1=%v IFF2=%v before: IFF1=%v IFF2=%v after (RETN copies IFF2 into IFF1), panic %v", iff&1 != 0, iff&2 != 0, c2.IFF1, c2.IFF2, p2)})
			}
		}
	}
	c.Evaluations += n
	c.Traces += n
	c.Nontrivial += 2
}

// c06IM0All: mode 0 executes the instruction the device supplies, whatever it is. Every implemented
// encoding is delivered as request data (program memory at PC holds other bytes) and the Step is compared
// with refz80 executing the same instruction from memory: registers, flags, IM, memory writes, port log,
// handler notifications; then IFF1 = IFF2 = 0 and the request is consumed. All instruction bytes come from
// the request: no read of program memory inside [PC, PC+len). Not compared: PC and pushed return
// addresses (C07's known finding), R, the halted flag; CALL/RST are replayEdge's subject.
func c06IM0All(c *Ctx) {
	set, err := implementedSet(c)
	if err != nil {
		c.Capped("framework error: " + err.Error())
		return
	}
	lat := newLattice(c.Salt, false)
	bg := obsBackground(c)
	fs := []uint8{0x00, 0xFF, 0x45, 0xBA}
	var evals [16 * 8]int64
	workers := make([]*Worker, 16)
	parallel(int64(len(set.Encs)), 1, 16, func(wi int, lo, hi int64) {
		if workers[wi] == nil {
			workers[wi] = newWorker(bg)
		}
		w := workers[wi]
		var ev int64
		defer func() { evals[wi*8] += ev }()
		seen := map[protoKey]struct{}{}
		var cs Case
		for ei := lo; ei < hi; ei++ {
			e := &set.Encs[ei]
			if e.Inst.Kind == refz80.KCall || e.Inst.Kind == refz80.KRst {
				continue
			}
			failed := false
			lat.forEachProto(e, seen, func(idx int, p *Proto) {
				if failed || p.Env != 0 {
					return
				}
				materialise(p, e, &cs)
				for _, f := range fs {
					cs.S.F = f
					cs.S.IFF1, cs.S.IFF2, cs.S.IM, cs.S.Halt = true, f&1 == 0, 0, false
					d := c06IM0One(w, &cs)
					ev++
					if len(d) > 0 {
						diff := append([]string{fmt.Sprintf("mode 0, IFF1 set, request data = %s (%s), PC=%04X", hexBytes(cs.Bytes), e.Name, cs.S.PC)}, d...)
						c.Report("c06/im0all:"+e.Name, int64(idx)*256+int64(f), "", cs.toJSON(c.Salt), cloneStrings(diff))
						failed = true
						return
					}
				}
			})
		}
	}, func() bool { return false })
	var tot int64
	for i := range evals {
		tot += evals[i]
	}
	c.Evaluations += tot
	c.Traces += tot
	c.Nontrivial += tot
	c.Set("mode0_every_encoding_cases", tot)
}

func c06IM0One(w *Worker, cs *Case) []string {
	bytes := cs.Bytes
	cs.Bytes = nil
	w.setup(cs) // neither memory holds the instruction
	cs.Bytes = bytes
	w.rmem.Poke(cs.S.PC, bytes...) // the model fetches it from memory
	req := z80.IM0Interrupt(bytes[0], bytes[1:]...)
	keep := append([]uint8(nil), req.Data...)
	w.cpu.Interrupt = req
	res := &w.res
	res.Panic, res.RefPanic = nil, nil
	res.Exp = cs.S
	w.curCase = cs
	w.safeRef(res)
	w.safeImpl(res)
	res.Got = fromCPU(&w.cpu)
	if res.Panic != nil || res.RefPanic != nil {
		return cloneStrings(w.compare(cs, res, AspState))
	}
	var d []string
	if w.cpu.Interrupt != nil {
		return []string{"the request was not accepted (mode 0, IFF1 set)"}
	}
	if string(keep) != string(req.Data) {
		d = append(d, fmt.Sprintf("the Step modified the request's Data: before % X after % X", keep, req.Data))
	}
	res.Exp.IFF1, res.Exp.IFF2 = false, false
	res.Out.IFF1Alt = false
	res.Exp.PC, res.Exp.R, res.Exp.Halt = res.Got.PC, res.Got.R, res.Got.Halt
	in := func(a uint16) bool { return a-cs.S.PC < uint16(len(bytes)) }
	for _, rd := range w.imem.Reads {
		if in(rd.Addr) {
			d = append(d, fmt.Sprintf("program memory at %04X was read: inside [PC, PC+%d) every byte comes from the request", rd.Addr, len(bytes)))
			break
		}
	}
	// the model's reads of [PC, PC+len) are the fetches (and data reads the request's bytes answer)
	k := 0
	for _, rd := range w.rmem.Reads {
		if !in(rd.Addr) {
			w.rmem.Reads[k] = rd
			k++
		}
	}
	w.rmem.Reads = w.rmem.Reads[:k]
	d = append(d, w.compare(cs, res, AspState|AspI|AspReads|AspWrites|AspPortLog|AspHandlers)...)
	return d
}

func replayC06IM0(c *Ctx, raw []byte) []string {
	var j CaseJSON
	if err := json.Unmarshal(raw, &j); err != nil {
		return []string{"bad replay file: " + err.Error()}
	}
	cs := caseFromJSON(&j)
	return c06IM0One(newWorker(obs.NewBackground(j.Salt)), &cs)
}

func replayC06(c *Ctx, raw []byte) []string {
	var e c06Edge
	if err := json.Unmarshal(raw, &e); err != nil || e.Instr == "" {
		return []string{"replay of this C06 case shape is not supported; see the diff in the file"}
	}
	path := os.Getenv("VERIF_C06_GRAPH")
	if path == "" {
		path = filepath.Join(c.Verif, "models", "Z80Int.dot")
	}
	g, err := loadTLCGraph(path)
	if err != nil {
		return []string{"cannot load graph: " + err.Error()}
	}
	si, ok := g.index[e.State.key()]
	if !ok {
		return []string{"state not in graph"}
	}
	r := &c06Runner{w: newWorker(obs.NewBackground(e.Salt)), g: g}
	p := c06Point{PC: e.PC, SP: e.SP, I: e.I, Vec: e.Vec, IM0: parseHexBytes(e.IM0), HaltFlag: e.Halt, Shape: e.Shape, R0: e.R0}
	for _, in := range c06Instrs() {
		if in.label == e.Instr {
			in := in
			d, _, _ := r.replayEdge(si, &p, &in)
			return cloneStrings(d)
		}
	}
	return []string{"unknown instruction " + e.Instr}
}
