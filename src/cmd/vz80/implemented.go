package main

import (
	"bufio"
	"context"
	"fmt"
	"io"
	"log"
	"os"
	"os/exec"
	"path/filepath"
	"sort"
	"strings"
	"sync"
	"time"

	z80 "github.com/koron-go/z80"
	"github.com/koron-go/z80/internal/verif/refz80"
)

// Enc is one opcode encoding (one arm of the decoder): the fixed bytes and
// where operand bytes go.
type Enc struct {
	Name   string  // e.g. "DD CB d 06"
	Fixed  []uint8 // template with operand bytes zero
	Inst   refz80.Inst
	DPos   int // index of the displacement byte or -1
	NPos   int // index of the 8-bit immediate or -1
	NNPos  int // index of the low byte of the 16-bit immediate or -1
	Valid  bool
	HasRel bool // D is a relative jump offset, not an index displacement
}

type countingWriter struct {
	mu sync.Mutex
	n  int
}

func (c *countingWriter) Write(p []byte) (int, error) {
	c.mu.Lock()
	c.n++
	c.mu.Unlock()
	return len(p), nil
}

var logSink = &countingWriter{}

func init() {
	// The emulator logs invalid opcodes through the standard logger; the
	// checks never compare log output (DESIGN §6) but count it in the
	// single-threaded pre-pass to *measure* the implemented set.
	// Outside the pre-pass the logger discards (the standard logger then skips
	// formatting altogether, so 16 workers do not contend on its mutex).
	log.SetOutput(io.Discard)
	log.SetFlags(0)
}

// decodePaths enumerates every decode path of the seven tables as byte
// templates (operand bytes zero).
func decodePaths() [][]uint8 {
	var out [][]uint8
	for op := 0; op < 256; op++ {
		switch op {
		case 0xCB, 0xED, 0xDD, 0xFD:
			continue
		}
		out = append(out, []uint8{uint8(op)})
	}
	for op := 0; op < 256; op++ {
		out = append(out, []uint8{0xCB, uint8(op)})
	}
	for op := 0; op < 256; op++ {
		out = append(out, []uint8{0xED, uint8(op)})
	}
	for _, p := range []uint8{0xDD, 0xFD} {
		for op := 0; op < 256; op++ {
			if op == 0xCB {
				continue
			}
			out = append(out, []uint8{p, uint8(op)})
		}
		for op := 0; op < 256; op++ {
			out = append(out, []uint8{p, 0xCB, 0, uint8(op)})
		}
	}
	return out
}

func encName(t []uint8) string {
	if len(t) == 4 {
		return fmt.Sprintf("%02X CB d %02X", t[0], t[3])
	}
	return hexBytes(t)
}

// implementedByStep reports whether the code under check treats template t as
// implemented: one Step from a neutral state must not log "invalid code".
// Must be called single-threaded.
func implementedByStep(t []uint8) (ok bool, panicked interface{}) {
	log.SetOutput(logSink)
	defer log.SetOutput(io.Discard)
	mem := make(z80.DumbMemory, 65536)
	copy(mem[0x100:], t)
	cpu := z80.CPU{Memory: mem, IO: make(z80.DumbIO, 256)}
	cpu.PC = 0x100
	cpu.SP = 0x8000
	before := logSink.n
	func() {
		defer func() { panicked = recover() }()
		cpu.Step()
	}()
	return logSink.n == before, panicked
}

// measureImplemented returns the names of all encodings the current tree implements.
func measureImplemented() []string {
	var out []string
	for _, t := range decodePaths() {
		if ok, _ := implementedByStep(t); ok {
			out = append(out, encName(t))
		}
	}
	sort.Strings(out)
	return out
}

func pinnedImplemented(verif string) (map[string]bool, error) {
	f, err := os.Open(filepath.Join(verif, "implemented.txt"))
	if err != nil {
		return nil, err
	}
	defer f.Close()
	m := map[string]bool{}
	sc := bufio.NewScanner(f)
	for sc.Scan() {
		l := strings.TrimSpace(sc.Text())
		if l != "" && !strings.HasPrefix(l, "#") {
			m[l] = true
		}
	}
	return m, nil
}

// buildEnc decodes template t with the reference decoder and derives the
// operand byte positions.
func buildEnc(t []uint8) Enc {
	buf := make([]uint8, 8)
	copy(buf, t)
	i := 0
	in := refz80.Decode(func() uint8 { b := buf[i]; i++; return b })
	e := Enc{Name: encName(t), Inst: in, DPos: -1, NPos: -1, NNPos: -1, Valid: in.Kind != refz80.KInvalid}
	e.Fixed = append([]uint8{}, buf[:in.Len]...)
	if !e.Valid {
		return e
	}
	opPos := 0
	if in.Table != 0 || in.Prefix != 0 {
		opPos = 1
	}
	if in.Table == 3 {
		e.DPos = 2
		return e
	}
	pos := opPos + 1
	usesD := in.Dst == refz80.LMemIXd || in.Dst == refz80.LMemIYd || in.Src == refz80.LMemIXd || in.Src == refz80.LMemIYd
	if in.Kind == refz80.KJr || in.Kind == refz80.KDjnz {
		usesD = true
		e.HasRel = true
	}
	if usesD {
		e.DPos = pos
		pos++
	}
	rest := in.Len - pos
	switch rest {
	case 1:
		e.NPos = pos
	case 2:
		e.NNPos = pos
	}
	return e
}

// allEncodings returns every decode path with its reference decode.
func allEncodings() []Enc {
	var out []Enc
	for _, t := range decodePaths() {
		out = append(out, buildEnc(t))
	}
	return out
}

// ImplementedSet is the result of the pre-pass shared by C01/C05/C14/...
type ImplementedSet struct {
	Encs    []Enc    // encodings compared against the model: measured ∩ model-valid
	Missing []string // pinned, but the tree logged something while executing it: still compared against the model (a tree that really treats it as invalid fails that comparison; mere log noise does not)
	Extra   []string // implemented by the tree but not pinned / not modelled: totality only
	Invalid []Enc    // decode paths the tree does not implement
}

// implementedSet measures the tree, cross-checks the pinned list and the model.
func implementedSet(c *Ctx) (*ImplementedSet, error) {
	pinned, err := pinnedImplemented(c.Verif)
	if err != nil {
		return nil, fmt.Errorf("implemented.txt: %v", err)
	}
	res := &ImplementedSet{}
	nValid := 0
	// The prepass executes *every* encoding, unsupported ones included, and those are outside most properties'
	// quantifiers: it runs in a child process, so that a tree which brings the process down on an unsupported
	// op-code (log.Fatal, os.Exit, a runtime fatal error: C12's subject) does not take this check with it. If the
	// child gives no complete answer the pinned set is assumed (no extra encodings, none missing).
	measured, childOK := implementedFromChild()
	if !childOK {
		c.Set("implemented_prepass", "the child process that executes every encoding once ended without a complete answer; the pinned set of implemented.txt is assumed")
	}
	for _, e := range allEncodings() {
		ok := e.Valid
		if childOK {
			ok = measured[hexBytes(e.Fixed)]
		}
		if e.Valid {
			nValid++
			if !pinned[e.Name] {
				return nil, fmt.Errorf("framework error: model implements %s which is not in implemented.txt", e.Name)
			}
		} else if pinned[e.Name] {
			return nil, fmt.Errorf("framework error: implemented.txt lists %s which the model does not implement", e.Name)
		}
		switch {
		case ok && e.Valid:
			res.Encs = append(res.Encs, e)
		case ok && !e.Valid:
			res.Extra = append(res.Extra, e.Name)
		case !ok && e.Valid:
			res.Missing = append(res.Missing, e.Name)
			res.Encs = append(res.Encs, e)
		default:
			res.Invalid = append(res.Invalid, e)
		}
	}
	if nValid != len(pinned) {
		return nil, fmt.Errorf("framework error: model implements %d encodings, implemented.txt lists %d", nValid, len(pinned))
	}
	return res, nil
}

// implementedChild is `vz80 implementedchild`: one line per encoding whose Step did not log, then END.
func implementedChild() int {
	w := bufio.NewWriter(os.Stdout)
	for _, e := range allEncodings() {
		if ok, _ := implementedByStep(e.Fixed); ok {
			fmt.Fprintln(w, hexBytes(e.Fixed))
		}
	}
	fmt.Fprintln(w, "END")
	w.Flush()
	return 0
}

func implementedFromChild() (map[string]bool, bool) {
	self, err := os.Executable()
	if err != nil {
		return nil, false
	}
	ctx, cancel := context.WithTimeout(context.Background(), 90*time.Second)
	defer cancel()
	out, _ := exec.CommandContext(ctx, self, "implementedchild").Output()
	lines := strings.Split(strings.TrimSpace(string(out)), "\n")
	if len(lines) == 0 || lines[len(lines)-1] != "END" {
		return nil, false
	}
	m := map[string]bool{}
	for _, l := range lines[:len(lines)-1] {
		m[l] = true
	}
	return m, true
}
