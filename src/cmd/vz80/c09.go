package main

import (
	"encoding/json"
	"fmt"
	z80 "github.com/koron-go/z80"
	"sync/atomic"

	"github.com/koron-go/z80/internal/verif/obs"
)

// C09: block instructions transfer, search and count exactly as a whole
// operation. For every block encoding and a parameter lattice the real CPU is
// stepped to completion; oracles: (1) a closed-form functional specification
// of the whole operation written here (independent of refz80's executor),
// (2) refz80 in lock-step on every intermediate Step, (3) the per-Step
// contract (one element per Step, PC stays on the instruction until done).
func init() {
	register("C09", checkC09)
	replayers["c09/block"] = replayC09
	replayers["c09/concrete"] = replayConc
}

type c09Params struct {
	Enc   string `json:"encoding"`
	Op    uint8  `json:"op"` // second byte after ED
	BC    uint16 `json:"bc"`
	HL    uint16 `json:"hl"`
	DE    uint16 `json:"de"`
	A     uint8  `json:"a"`
	F     uint8  `json:"f"`
	PC    uint16 `json:"pc"`
	Fill  int    `json:"fill"` // 0 background; 1: A planted at HL+-Plant
	Plant int    `json:"plant"`
	IOX   uint8  `json:"io_x"`
	// NoIO: the CPU has no IO device (CPU.IO == nil): input transfers store 0, output transfers go nowhere.
	// Right before the operation another IO-less CPU executes OUT (C),A on the same port number.
	NoIO bool   `json:"no_io_device,omitempty"`
	Salt uint32 `json:"salt"`
}

type c09Runner struct {
	w    *Worker
	spec *obs.Mem
}

func newC09Runner(bg *[65536]uint8) *c09Runner {
	r := &c09Runner{w: newWorker(bg), spec: obs.NewMem(bg)}
	r.w.enableFrame()
	return r
}

func bit(v uint8, n uint) uint8 { return (v >> n) & 1 }

// run executes one parameter point to completion. Returns a diff or nil, and the number of Steps.
func (r *c09Runner) run(p *c09Params) ([]string, int) {
	w := r.w
	op := p.Op
	kind := op & 3      // 0 LD 1 CP 2 IN 3 OUT
	dec := op&0x08 != 0 // xxD / xxDR
	rep := op&0x10 != 0 // xxIR / xxDR
	base := baseVector(2)
	s := base.S
	s.PC, s.A, s.F = p.PC, p.A, p.F
	s.B, s.C = uint8(p.BC>>8), uint8(p.BC)
	s.H, s.L = uint8(p.HL>>8), uint8(p.HL)
	s.D, s.E = uint8(p.DE>>8), uint8(p.DE)
	s.SP = 0x7000
	cs := Case{S: s, Bytes: []uint8{0xED, op}, IOX: p.IOX, IOY: 0x35}
	step := func(i int) uint16 {
		if dec {
			return uint16(-i)
		}
		return uint16(i)
	}
	if p.Fill == 1 {
		cs.Pokes = append(cs.Pokes, Poke{p.HL + step(p.Plant), []uint8{p.A}})
	}
	if p.NoIO {
		cs.Env = 2
		pre := z80.CPU{Memory: z80.DumbMemory{0xED, 0x79, 0xED, 0x79}}
		pre.AF.Hi, pre.BC.Lo, pre.BC.Hi = 0xA7, uint8(p.BC), 0x55
		func() {
			defer func() { recover() }()
			liveStep(&pre)
			liveStep(&pre)
		}()
	}
	w.setup(&cs)
	r.spec.Reset()
	for _, pk := range cs.Pokes {
		r.spec.Poke(pk.Addr, pk.Data...)
	}
	r.spec.Poke(p.PC, cs.Bytes...)
	// ---- closed-form specification on r.spec ----
	var n int // number of elements the whole operation must process
	var count int
	if kind <= 1 {
		count = int(p.BC)
		if count == 0 {
			count = 65536
		}
	} else {
		count = int(p.BC >> 8)
		if count == 0 {
			count = 256
		}
	}
	if !rep {
		count = 1
	}
	selfMod := false // the operation writes over its own two bytes: closed form not applicable
	var lastByte uint8
	var found bool
	var specPorts []obs.PortAccess
	switch kind {
	case 0:
		n = count
		for i := 0; i < n; i++ {
			dst := p.DE + step(i)
			if dst == p.PC || dst == p.PC+1 {
				selfMod = true
			}
			lastByte = r.spec.Peek(p.HL + step(i))
			r.spec.Poke(dst, lastByte)
		}
	case 1:
		for i := 0; i < count; i++ {
			n++
			lastByte = r.spec.Peek(p.HL + step(i))
			if lastByte == p.A {
				found = true
				break
			}
		}
	case 2:
		n = count
		for i := 0; i < n; i++ {
			dst := p.HL + step(i)
			if dst == p.PC || dst == p.PC+1 {
				selfMod = true
			}
			v := w.rio.InValue(uint8(p.BC), i)
			if p.NoIO {
				v = 0
			} else {
				specPorts = append(specPorts, obs.PortAccess{Out: false, Port: uint8(p.BC), Val: v})
			}
			r.spec.Poke(dst, v)
			lastByte = v
		}
	case 3:
		n = count
		for i := 0; i < n; i++ {
			lastByte = r.spec.Peek(p.HL + step(i))
			if !p.NoIO {
				specPorts = append(specPorts, obs.PortAccess{Out: true, Port: uint8(p.BC), Val: lastByte})
			}
		}
	}
	// ---- run the implementation, refz80 in lock-step ----
	exp := s
	steps := 0
	var allPorts []obs.PortAccess
	for {
		cur := Case{S: exp}
		w.imem.ClearLog()
		w.rmem.ClearLog()
		w.iio.Log = w.iio.Log[:0]
		w.rio.Log = w.rio.Log[:0]
		pre := exp
		w.frame = w.frame[:0]
		res := w.stepBothNoSetup(&cur)
		steps++
		if d := w.frameDiff(&cur, res); d != nil {
			return append([]string{fmt.Sprintf("Step %d of the operation (BC=%02X%02X before it):", steps, pre.B, pre.C)}, d...), steps
		}
		if d := w.compare(&cur, res, AspState|AspReads|AspWrites|AspPortLog); d != nil {
			return append([]string{fmt.Sprintf("Step %d of the operation (BC=%02X%02X HL=%02X%02X DE=%02X%02X before it) disagrees with refz80:", steps, pre.B, pre.C, pre.H, pre.L, pre.D, pre.E)}, d...), steps
		}
		got := res.Got
		allPorts = append(allPorts, w.iio.Log...)
		if selfMod && (w.imem.Peek(p.PC) != 0xED || w.imem.Peek(p.PC+1) != op) {
			// the transfer has overwritten its own instruction: what runs next is
			// no longer this operation. The lock-step comparison covered every
			// Step up to and including the overwriting one.
			return nil, steps
		}
		// per-Step contract: exactly one element
		dataReads := len(w.imem.Reads) - 2
		var okc bool
		switch kind {
		case 0:
			okc = dataReads == 1 && len(w.imem.Writes) == 1 && len(w.iio.Log) == 0
		case 1:
			okc = dataReads == 1 && len(w.imem.Writes) == 0 && len(w.iio.Log) == 0
		case 2:
			okc = dataReads == 0 && len(w.imem.Writes) == 1 && len(w.iio.Log) == 1 && !w.iio.Log[0].Out
		case 3:
			okc = dataReads == 1 && len(w.imem.Writes) == 0 && len(w.iio.Log) == 1 && w.iio.Log[0].Out
		}
		if p.NoIO && kind >= 2 {
			okc = len(w.iio.Log) == 0 && ((kind == 2 && dataReads == 0 && len(w.imem.Writes) == 1) || (kind == 3 && dataReads == 1 && len(w.imem.Writes) == 0))
		}
		if !okc {
			return []string{fmt.Sprintf("Step %d did not move exactly one element: %d data reads, writes %s, ports %s", steps, dataReads, fmtAcc(w.imem.Writes), fmtPorts(w.iio.Log))}, steps
		}
		preCnt, gotCnt := uint16(pre.B)<<8|uint16(pre.C), uint16(got.B)<<8|uint16(got.C)
		if kind >= 2 {
			preCnt, gotCnt = uint16(pre.B), uint16(got.B)
		}
		if (kind < 2 && preCnt-gotCnt != 1) || (kind >= 2 && uint8(preCnt-gotCnt) != 1) {
			return []string{fmt.Sprintf("Step %d: counter %04X -> %04X (must decrease by one)", steps, preCnt, gotCnt)}, steps
		}
		exp = got
		if got.PC != p.PC {
			break
		}
		if steps > 70000 {
			return []string{fmt.Sprintf("operation did not finish within 70000 Steps (needs %d elements)", n)}, steps
		}
		if !rep {
			return []string{fmt.Sprintf("non-repeating form left PC on the instruction (PC=%04X)", got.PC)}, steps
		}
	}
	if selfMod {
		return nil, steps // lock-step oracle only
	}
	// ---- compare with the closed form ----
	var d []string
	got := exp
	if steps != n {
		d = append(d, fmt.Sprintf("operation took %d Steps, specification processes %d elements", steps, n))
	}
	if got.PC != p.PC+2 {
		d = append(d, fmt.Sprintf("final PC want %04X got %04X", p.PC+2, got.PC))
	}
	hl := uint16(got.H)<<8 | uint16(got.L)
	de := uint16(got.D)<<8 | uint16(got.E)
	bc := uint16(got.B)<<8 | uint16(got.C)
	if hl != p.HL+step(n) {
		d = append(d, fmt.Sprintf("final HL want %04X got %04X", p.HL+step(n), hl))
	}
	wantF := p.F
	var fmask uint8 = 0xFF
	switch kind {
	case 0:
		if de != p.DE+step(n) {
			d = append(d, fmt.Sprintf("final DE want %04X got %04X", p.DE+step(n), de))
		}
		if bc != p.BC-uint16(n) {
			d = append(d, fmt.Sprintf("final BC want %04X got %04X", p.BC-uint16(n), bc))
		}
		k := p.A + lastByte
		wantF = p.F&(0x80|0x40|0x01) | bit(k, 1)<<5 | bit(k, 3)<<3
		if p.BC-uint16(n) != 0 {
			wantF |= 0x04
		}
	case 1:
		if bc != p.BC-uint16(n) {
			d = append(d, fmt.Sprintf("final BC want %04X got %04X", p.BC-uint16(n), bc))
		}
		if de != p.DE {
			d = append(d, fmt.Sprintf("DE changed: %04X -> %04X", p.DE, de))
		}
		res := p.A - lastByte
		hb := (p.A & 15) < (lastByte & 15)
		wantF = p.F&0x01 | 0x02 | res&0x80
		if res == 0 {
			wantF |= 0x40
		}
		if found != (res == 0) {
			d = append(d, "framework error: found/res mismatch")
		}
		k := res
		if hb {
			wantF |= 0x10
			k--
		}
		wantF |= bit(k, 1)<<5 | bit(k, 3)<<3
		if p.BC-uint16(n) != 0 {
			wantF |= 0x04
		}
	case 2, 3:
		if de != p.DE {
			d = append(d, fmt.Sprintf("DE changed: %04X -> %04X", p.DE, de))
		}
		wantB := uint8(p.BC>>8) - uint8(n)
		if got.B != wantB || got.C != uint8(p.BC) {
			d = append(d, fmt.Sprintf("final B,C want %02X,%02X got %02X,%02X", wantB, uint8(p.BC), got.B, got.C))
		}
		// documented: Z = (B == 0), N = 1 (silicon: N = bit 7 of the last byte); everything else undefined
		wantF = 0x02
		if wantB == 0 {
			wantF |= 0x40
		}
		fmask = 0x40
		if lastByte&0x80 != 0 {
			fmask |= 0x02
		}
		if !obs.SamePorts(allPorts, specPorts) {
			d = append(d, fmt.Sprintf("port transfers differ from the specification: want %d transfers through port %02X, got %d; first got %s", len(specPorts), uint8(p.BC), len(allPorts), fmtPorts(allPorts[:min(4, len(allPorts))])))
		}
	}
	if (got.F^wantF)&fmask != 0 {
		d = append(d, fmt.Sprintf("final F want %s got %s (mask %02X)", flagStr(wantF), flagStr(got.F), fmask))
	}
	if got.A != p.A {
		d = append(d, fmt.Sprintf("A changed: %02X -> %02X", p.A, got.A))
	}
	if ok, a := w.imem.EqualContents(r.spec); !ok {
		d = append(d, fmt.Sprintf("final memory[%04X]: specification %02X, implementation %02X", a, r.spec.Peek(a), w.imem.Peek(a)))
	}
	if len(d) == 0 {
		return nil, steps
	}
	return d, steps
}

func min(a, b int) int {
	if a < b {
		return a
	}
	return b
}

func c09Points(c *Ctx, op uint8) []c09Params {
	var out []c09Params
	kind := op & 3
	pcs := []uint16{0x0100, 0xFFFE, 0xFFFF}
	counts := []uint16{0, 1, 2, 3, 255, 256, 257, 65535}
	if kind >= 2 {
		counts = []uint16{0x0000, 0x0100, 0x0200, 0x0300, 0xFF00, 0x8000}
	}
	ptrs := append(append([]uint16{}, w16...), 0x4000, 0x00FE, 0x0101, 0x0102)
	add := func(p c09Params) {
		p.Op = op
		p.Enc = fmt.Sprintf("ED %02X", op)
		p.Salt = c.Salt
		out = append(out, p)
	}
	for _, bc := range counts {
		cport := uint16(0x0042)
		if kind < 2 {
			cport = 0
		}
		for _, hl := range ptrs {
			add(c09Params{BC: bc | cport, HL: hl, DE: 0x5000, A: 0x5A, F: 0x00, PC: 0x0100, IOX: 0x21})
			add(c09Params{BC: bc | cport, HL: hl, DE: 0x5000, A: 0x5A, F: 0x00, PC: 0x0100, IOX: 0x21, NoIO: true})
			add(c09Params{BC: bc | cport, HL: hl, DE: 0x5000, A: 0xA5, F: 0xFF, PC: 0x0100, IOX: 0xFE})
		}
		if kind == 0 {
			for _, de := range ptrs {
				add(c09Params{BC: bc, HL: 0x4000, DE: de, A: 0x11, F: 0xD7, PC: 0x0100})
			}
			// overlap distances -3..+3
			for dist := -3; dist <= 3; dist++ {
				add(c09Params{BC: bc, HL: 0x4000, DE: uint16(0x4000 + dist), A: 0x00, F: 0x28, PC: 0x0100})
				add(c09Params{BC: bc, HL: 0xFFFE, DE: uint16(0xFFFE + dist), A: 0xFF, F: 0x01, PC: 0x0100})
			}
			// destination / source covering the instruction itself
			for _, pc := range pcs {
				for off := -2; off <= 1; off++ {
					add(c09Params{BC: bc, HL: 0x4000, DE: pc + uint16(off), A: 0x33, F: 0x00, PC: pc})
					add(c09Params{BC: bc, HL: pc + uint16(off), DE: 0x4000, A: 0x33, F: 0x45, PC: pc})
				}
			}
		}
		if kind == 1 {
			// byte present at position 0 / 1 / 2 / last / absent
			n := int(bc)
			if n == 0 {
				n = 65536
			}
			for _, plant := range []int{0, 1, 2, n - 1, n, n + 5} {
				if plant < 0 {
					continue
				}
				for _, a := range []uint8{0x00, 0x7F, 0x80, 0xFF, 0x0F, 0x10} {
					add(c09Params{BC: bc, HL: 0x4000, DE: 0x1234, A: a, F: 0x01, PC: 0x0100, Fill: 1, Plant: plant})
					add(c09Params{BC: bc, HL: 0xFFF0, DE: 0x1234, A: a, F: 0xFE, PC: 0xFFFE, Fill: 1, Plant: plant})
				}
			}
		}
		if kind >= 2 {
			for _, pc := range pcs {
				for _, port := range []uint16{0x00, 0xFF, 0x80} {
					add(c09Params{BC: bc | port, HL: pc - 1, DE: 0x2222, A: 0x44, F: 0x10, PC: pc, IOX: 0x80})
					add(c09Params{BC: bc | port, HL: 0x8000, DE: 0x2222, A: 0x44, F: 0xEF, PC: pc, IOX: 0x7F})
				}
			}
		}
	}
	if !c.Quick() && kind <= 1 {
		for bc := 4; bc <= 1024; bc++ {
			add(c09Params{BC: uint16(bc), HL: 0x4000, DE: 0x4003, A: 0x77, F: 0x00, PC: 0x0100})
			add(c09Params{BC: uint16(bc), HL: 0xFF00, DE: 0xFEFD, A: 0x77, F: 0xFF, PC: 0x0100, Fill: 1, Plant: bc / 2})
		}
		// every count 1..300 x every overlap distance -8..+8, in mid-memory and across the top of the address space
		for bc := 1; bc <= 300; bc++ {
			for dist := -8; dist <= 8; dist++ {
				add(c09Params{BC: uint16(bc), HL: 0x4000, DE: uint16(0x4000 + dist), A: uint8(bc), F: uint8(dist * 17), PC: 0x0100, Fill: 1, Plant: bc - 1})
				add(c09Params{BC: uint16(bc), HL: 0xFFF0, DE: uint16(0xFFF0 + dist), A: uint8(bc), F: uint8(dist*17 + 1), PC: 0x0100})
			}
		}
		// searches: every position of the match in a 64-byte block, every count around it
		if kind == 1 {
			for plant := 0; plant < 64; plant++ {
				for _, bc := range []int{plant, plant + 1, plant + 2, 64, 0} {
					if bc < 0 {
						continue
					}
					add(c09Params{BC: uint16(bc), HL: 0x4000, DE: 0x1234, A: 0xC3, F: 0x01, PC: 0x0100, Fill: 1, Plant: plant})
					add(c09Params{BC: uint16(bc), HL: 0xFFE0, DE: 0x1234, A: 0xC3, F: 0xFE, PC: 0x0100, Fill: 1, Plant: plant})
				}
			}
		}
	}
	if !c.Quick() && kind >= 2 {
		// port forms: every B, three ports, pointers in mid-memory and across the top
		for b := 0; b < 256; b++ {
			for _, port := range []uint16{0x00, 0x7F, 0xFF} {
				add(c09Params{BC: uint16(b)<<8 | port, HL: 0x4000, DE: 0x2222, A: 0x44, F: uint8(b), PC: 0x0100, IOX: uint8(b * 3)})
				add(c09Params{BC: uint16(b)<<8 | port, HL: 0xFFC0, DE: 0x2222, A: 0x44, F: uint8(^b), PC: 0x0100, IOX: uint8(b*5 + 1)})
			}
		}
	}
	return out
}

func checkC09(c *Ctx) {
	ops := []uint8{0xA0, 0xA1, 0xA2, 0xA3, 0xA8, 0xA9, 0xAA, 0xAB, 0xB0, 0xB1, 0xB2, 0xB3, 0xB8, 0xB9, 0xBA, 0xBB}
	var pts []c09Params
	for _, op := range ops {
		pts = append(pts, c09Points(c, op)...)
	}
	c.Rule = "16 block encodings x parameter lattice (the port forms also on a CPU without IO device, right after another IO-less CPU wrote to the same port number; BC in {0,1,2,3,255,256,257,65535} resp. B in {0,1,2,3,255,128}; HL/DE over W16 and neighbours; overlap distances -3..+3 at 0x4000 and across 0xFFFF; source/destination covering the instruction bytes at PC 0100/FFFE/FFFF; for searches the byte planted at position 0/1/2/last/absent x 6 A values; 3 ports; thorough: BC sweep 4..1024, every count 1..300 x overlap distance -8..+8 in mid-memory and across FFFF, every match position in a 64-byte block x counts around it, every B x 3 ports for the port forms); each point run to completion through real Steps. Every point with BC < 600 again on the package's own MapMemory (destination cells written beforehand, every other source cell never written) and DumbMemory (len 65536, 65536+256, 32768) with DumbIO, handed over unwrapped vs behind opaque wrappers: same final state and device contents; single elements of all 16 encodings over the quick lattice on those device types, also with a port device that re-points CPU.Memory to another bank on every port access. Oracles: closed-form specification of the whole operation (memory image, counters, pointers, PC, flags, port transfers, number of Steps), refz80 in lock-step on every Step, per-Step one-element contract. Non-trivial: every point transfers or compares at least one element (counted)."
	c.Bound = "parameter lattice " + c.Tier
	bg := obsBackground(c)
	runners := make([]*c09Runner, 16)
	var evals, steps [16 * 8]int64
	var capped int32
	failedOp := make([]int32, 256)
	parallel(int64(len(pts)), 4, 16, func(wi int, lo, hi int64) {
		if runners[wi] == nil {
			runners[wi] = newC09Runner(bg)
		}
		r := runners[wi]
		for i := lo; i < hi; i++ {
			p := &pts[i]
			if atomic.LoadInt32(&failedOp[p.Op]) != 0 {
				continue
			}
			d, n := r.run(p)
			evals[wi*8]++
			steps[wi*8] += int64(n)
			if d == nil && !p.NoIO && int(p.BC) != 0 && (p.BC < 600 || p.Op&3 >= 2) {
				// the same whole operation on the package's own device types, unwrapped vs behind opaque wrappers
				for kind := 0; kind < 4 && d == nil; kind++ {
					var n2 int
					d, n2 = c09Concrete(bg, p, kind)
					evals[wi*8]++
					steps[wi*8] += int64(n2)
				}
			}
			if d != nil {
				atomic.StoreInt32(&failedOp[p.Op], 1)
				c.Report("c09/block:"+p.Enc, i, "", p, cloneStrings(append([]string{fmt.Sprintf("%s BC=%04X HL=%04X DE=%04X A=%02X F=%02X PC=%04X", p.Enc, p.BC, p.HL, p.DE, p.A, p.F, p.PC)}, d...)))
			}
		}
		if c.TimeUp() {
			if atomic.CompareAndSwapInt32(&capped, 0, 1) {
				c.Capped("time cap reached")
			}
		}
	}, func() bool { return atomic.LoadInt32(&capped) != 0 })
	var totSteps int64
	for i := range evals {
		c.Evaluations += evals[i]
		totSteps += steps[i]
	}
	c.Nontrivial = c.Evaluations
	c.States = totSteps
	c.Transitions = totSteps
	c.Traces = c.Evaluations
	{
		// single elements on the package's own device types, incl. a port device that switches banks by
		// re-pointing CPU.Memory on every port access (unwrapped vs wrapped must agree)
		var encs []Enc
		var ptrs []*Enc
		for _, op := range ops {
			encs = append(encs, buildEnc([]uint8{0xED, op}))
		}
		for i := range encs {
			ptrs = append(ptrs, &encs[i])
		}
		runConcreteTypes(c, "c09/concrete", ptrs, []uint8{0x00, 0xFF, 0x45, 0xBA})
		runDeviceShapes(c, "c09/shapes")
	}
	c.Exhaustive = true
	c.Set("parameter_points", len(pts))
	c.Set("steps_executed", totSteps)
	c.Sample(pts[0])
	c.Sample(pts[len(pts)/2])
	c.Sample(pts[len(pts)-1])
	c.Assume("self-overwriting transfers (destination covers the instruction bytes) are judged by the lock-step reference only")
	c.Assume("block I/O: only Z and N (documented, or silicon N) are compared in the closed form; undocumented flags per DESIGN §6 in the lock-step comparison")
}

func replayC09(c *Ctx, raw []byte) []string {
	var p c09Params
	if err := json.Unmarshal(raw, &p); err != nil {
		return []string{"bad replay file"}
	}
	bg := obs.NewBackground(p.Salt)
	r := newC09Runner(bg)
	d, _ := r.run(&p)
	for kind := 0; kind < 4 && d == nil && !p.NoIO; kind++ {
		d, _ = c09Concrete(bg, &p, kind)
	}
	return cloneStrings(d)
}

// c09Concrete runs the whole operation twice on the package's own device types - handed to the CPU
// unwrapped, and behind opaque forwarding wrappers - and compares final state and contents. kind: 0
// MapMemory, 1..3 DumbMemory of len 65536, 65536+256, 32768.
func c09Concrete(bg *[65536]uint8, p *c09Params, kind int) ([]string, int) {
	op := p.Op
	dec := op&0x08 != 0
	stepA := func(i int) uint16 {
		if dec {
			return uint16(-i)
		}
		return uint16(i)
	}
	count := int(p.BC)
	if op&3 >= 2 {
		count = int(p.BC >> 8)
		if count == 0 {
			count = 256
		}
	}
	if op&0x10 == 0 {
		count = 1
	}
	mk := func() (z80.Memory, []uint8, z80.MapMemory) {
		if kind == 0 {
			mm := z80.MapMemory{}
			// destination cells hold older data; every other source cell was never written
			for i := 0; i < count && i < 600; i++ {
				mm.Set(p.DE+stepA(i), uint8(0x11+i))
				if op&3 == 2 {
					mm.Set(p.HL+stepA(i), uint8(0x21+i))
				} else if i%2 == 0 {
					mm.Set(p.HL+stepA(i), uint8(0x80|i))
				}
			}
			mm.Put(p.PC, 0xED, op)
			return mm, nil, mm
		}
		l := []int{0, 65536, 65536 + 256, 32768}[kind]
		dm := make(z80.DumbMemory, l)
		copy(dm, bg[:])
		for i, b := range []uint8{0xED, op} {
			if a := int(p.PC + uint16(i)); a < l {
				dm[a] = b
			}
		}
		return dm, dm, nil
	}
	memA, bytesA, mapA := mk()
	memB, bytesB, mapB := mk()
	ioA, ioB := make(z80.DumbIO, 256), make(z80.DumbIO, 256)
	for i := range ioA {
		ioA[i], ioB[i] = uint8(i*3)+p.IOX, uint8(i*3)+p.IOX
	}
	a := z80.CPU{Memory: memA, IO: ioA}
	b := z80.CPU{Memory: &opaqueMem{m: memB, limit: 1 << 30}, IO: &opaqueIO{ioB}}
	base := baseVector(2)
	s := base.S
	s.PC, s.A, s.F = p.PC, p.A, p.F
	s.B, s.C = uint8(p.BC>>8), uint8(p.BC)
	s.H, s.L = uint8(p.HL>>8), uint8(p.HL)
	s.D, s.E = uint8(p.DE>>8), uint8(p.DE)
	s.SP = 0x7000
	toCPU(&s, &a)
	toCPU(&s, &b)
	steps := 0
	name := []string{"MapMemory", "DumbMemory len 65536", "DumbMemory len 65536+256", "DumbMemory len 32768"}[kind]
	for steps < 70000 {
		pa, pb := c02Step(&a), c02Step(&b)
		steps++
		if pa != nil || pb != nil {
			if fmt.Sprint(pa) != fmt.Sprint(pb) {
				return []string{fmt.Sprintf("on %s: panic differs at Step %d: unwrapped %v, wrapped %v", name, steps, pa, pb)}, steps
			}
			return nil, steps
		}
		if a.States != b.States {
			x, y := fromCPU(&a), fromCPU(&b)
			return []string{fmt.Sprintf("on %s handed over unwrapped the operation differs from the same device behind an opaque wrapper at Step %d: unwrapped %v ; wrapped %v", name, steps, stateMap(&x), stateMap(&y))}, steps
		}
		if b.PC != p.PC || b.Memory.Get(p.PC) != 0xED || b.Memory.Get(p.PC+1) != op {
			break
		}
	}
	var d []string
	if bytesA != nil {
		if i := firstDiff(bytesA, bytesB); i >= 0 {
			d = append(d, fmt.Sprintf("on %s: memory differs at index %#x after the operation: unwrapped %02X, wrapped %02X", name, i, bytesA[i], bytesB[i]))
		}
	} else {
		if len(mapA) != len(mapB) {
			d = append(d, fmt.Sprintf("on MapMemory: %d entries unwrapped, %d wrapped", len(mapA), len(mapB)))
		}
		for k, v := range mapB {
			if w, ok := mapA[k]; !ok || w != v {
				d = append(d, fmt.Sprintf("on MapMemory: cell %04X after the operation: unwrapped %02X (present %v), wrapped %02X", k, w, ok, v))
				break
			}
		}
	}
	if i := firstDiff(ioA, ioB); i >= 0 {
		d = append(d, fmt.Sprintf("on %s: DumbIO differs at port %02X", name, i))
	}
	return d, steps
}
