package main

import (
	"bytes"
	"encoding/json"
	"fmt"
	"sync/atomic"

	z80 "github.com/koron-go/z80"
	"github.com/koron-go/z80/internal/verif/obs"
	"github.com/koron-go/z80/internal/verif/refz80"
)

// Concrete-type transparency. The CPU receives its devices as interfaces; the
// package also ships concrete device types (DumbMemory, MapMemory, DumbIO).
// An instruction must behave the same whether a device arrives as one of
// those concrete types or behind an opaque wrapper that forwards to an
// identical copy: a type-switched fast path that deviates from the interface
// path is caught here, whatever the length of the slice. The wrapped path is
// what C01 compares with refz80, so this pass extends C01's verdict to the
// concrete types without a second oracle.

// concMem is a real z80.DumbMemory with a cheap restore.
type concMem struct {
	dm       z80.DumbMemory
	pristine []uint8
}

const concChunk = 256

func newConcMem(bg *[65536]uint8, n int) *concMem {
	m := &concMem{dm: make(z80.DumbMemory, n), pristine: make([]uint8, n)}
	for i := 0; i < n; i++ {
		if i < 65536 {
			m.pristine[i] = bg[i]
		} else {
			m.pristine[i] = 0xE5
		}
	}
	copy(m.dm, m.pristine)
	return m
}

func (m *concMem) poke(a uint16, data ...uint8) {
	for _, b := range data {
		if int(a) < len(m.dm) {
			m.dm[a] = b
		}
		a++
	}
}

// restore puts every chunk that differs from the pristine image back.
func (m *concMem) restore() {
	if bytes.Equal(m.dm, m.pristine) {
		return
	}
	for o := 0; o < len(m.dm); o += concChunk {
		e := o + concChunk
		if e > len(m.dm) {
			e = len(m.dm)
		}
		if !bytes.Equal(m.dm[o:e], m.pristine[o:e]) {
			copy(m.dm[o:e], m.pristine[o:e])
		}
	}
}

// firstDiff returns the first index where a and b differ, or -1.
func firstDiff(a, b []uint8) int {
	if bytes.Equal(a, b) {
		return -1
	}
	n := len(a)
	if len(b) < n {
		n = len(b)
	}
	for i := 0; i < n; i++ {
		if a[i] != b[i] {
			return i
		}
	}
	return n
}

// opaqueMem / opaqueIO hide the concrete type from type switches.
type opaqueMem struct {
	m     z80.Memory
	limit int
}

func (o *opaqueMem) Get(a uint16) uint8 {
	o.limit--
	if o.limit < 0 {
		panic(obs.Watchdog{})
	}
	return o.m.Get(a)
}
func (o *opaqueMem) Set(a uint16, v uint8) {
	o.limit--
	if o.limit < 0 {
		panic(obs.Watchdog{})
	}
	o.m.Set(a, v)
}

type opaqueIO struct{ d z80.IO }

func (o *opaqueIO) In(p uint8) uint8     { return o.d.In(p) }
func (o *opaqueIO) Out(p uint8, v uint8) { o.d.Out(p, v) }

// bankIO is a port device that switches banks: every access re-points CPU.Memory to the other memory of
// its pair (a port-selected bank register, implemented by replacing the Memory object). It answers like a
// DumbIO of 256 ports.
type bankIO struct {
	cpu   *z80.CPU
	banks [2]z80.Memory
	cur   int
	ports z80.DumbIO
}

func (d *bankIO) flip() {
	d.cur ^= 1
	d.cpu.Memory = d.banks[d.cur]
}
func (d *bankIO) In(p uint8) uint8     { d.flip(); return d.ports.In(p) }
func (d *bankIO) Out(p uint8, v uint8) { d.flip(); d.ports.Out(p, v) }

// romMem is an embedder's memory built by embedding the package's DumbMemory and overriding Get and Set: the
// lower 16 KiB are ROM (stores ignored), every access is counted. Whatever unexported or optional method the
// embedded type may carry along, the CPU talks to this type through Get and Set.
type romMem struct {
	z80.DumbMemory
	gets, sets int
}

func (m *romMem) Get(a uint16) uint8 { m.gets++; return m.DumbMemory.Get(a) }
func (m *romMem) Set(a uint16, v uint8) {
	m.sets++
	if a >= 0x4000 {
		m.DumbMemory.Set(a, v)
	}
}

// latchIO embeds DumbIO and overrides In and Out likewise (port 0x10 is write-protected, accesses counted).
type latchIO struct {
	z80.DumbIO
	ins, outs int
}

func (d *latchIO) In(p uint8) uint8 { d.ins++; return d.DumbIO.In(p) ^ 0x0F }
func (d *latchIO) Out(p uint8, v uint8) {
	d.outs++
	if p != 0x10 {
		d.DumbIO.Out(p, v)
	}
}

// concKinds: the concrete memories of the pass.
var concKinds = []struct {
	name string
	n    int // DumbMemory length; 0 = MapMemory
}{
	{"DumbMemory len 65536", 65536},
	{"DumbMemory len 65536+256", 65536 + 256},
	{"DumbMemory len 32768", 32768},
	{"MapMemory", 0},
	// the port device re-points CPU.Memory to a second memory of the same kind on every port access (port
	// forms only): whichever object the implementation lets serve the rest of the instruction, it must not
	// depend on whether the memories arrive as the concrete type or behind a wrapper
	{"DumbMemory len 65536, bank switch on port access", -1},
	// the embedder's devices EMBED the package's helper types and override the interface methods
	{"a type embedding DumbMemory that overrides Get/Set (ROM below 4000h), a type embedding DumbIO that overrides In/Out", -3},
}

type concRunner struct {
	kind     int
	a, b     *concMem // a: handed over unwrapped, b: behind opaqueMem
	ma, mb   z80.MapMemory
	ioA, ioB z80.DumbIO
	ioInit   []uint8
	cpuA     z80.CPU
	cpuB     z80.CPU
	wrapB    *opaqueMem
	// bank-switch kind: second bank per side and the switching devices
	a2, b2       *concMem
	wrapB2       *opaqueMem
	bankA, bankB *bankIO
	romA, romB   *romMem
	latA, latB   *latchIO
}

func newConcRunner(bg *[65536]uint8, kind int) *concRunner {
	r := &concRunner{kind: kind}
	if concKinds[kind].n == -3 {
		r.a, r.b = newConcMem(bg, 65536), newConcMem(bg, 65536)
		r.romA, r.romB = &romMem{DumbMemory: r.a.dm}, &romMem{DumbMemory: r.b.dm}
		r.wrapB = &opaqueMem{m: r.romB}
		r.cpuA.Memory, r.cpuB.Memory = r.romA, r.wrapB
		r.ioInit = make([]uint8, 256)
		for i := range r.ioInit {
			r.ioInit[i] = bg[0x4000+i*3]
		}
		r.ioA, r.ioB = make(z80.DumbIO, 256), make(z80.DumbIO, 256)
		r.latA, r.latB = &latchIO{DumbIO: r.ioA}, &latchIO{DumbIO: r.ioB}
		r.cpuA.IO, r.cpuB.IO = r.latA, &opaqueIO{r.latB}
		return r
	}
	if concKinds[kind].n == -1 {
		bg2 := obs.NewBackground(0x5EED0003)
		r.a, r.b = newConcMem(bg, 65536), newConcMem(bg, 65536)
		r.a2, r.b2 = newConcMem(bg2, 65536), newConcMem(bg2, 65536)
		r.wrapB, r.wrapB2 = &opaqueMem{m: r.b.dm}, &opaqueMem{m: r.b2.dm}
		r.cpuA.Memory, r.cpuB.Memory = r.a.dm, r.wrapB
		r.ioInit = make([]uint8, 256)
		for i := range r.ioInit {
			r.ioInit[i] = bg[0x4000+i*3]
		}
		r.ioA, r.ioB = make(z80.DumbIO, 256), make(z80.DumbIO, 256)
		r.bankA = &bankIO{cpu: &r.cpuA, banks: [2]z80.Memory{r.a.dm, r.a2.dm}, ports: r.ioA}
		r.bankB = &bankIO{cpu: &r.cpuB, banks: [2]z80.Memory{r.wrapB, r.wrapB2}, ports: r.ioB}
		r.cpuA.IO, r.cpuB.IO = r.bankA, r.bankB
		return r
	}
	if n := concKinds[kind].n; n > 0 {
		r.a, r.b = newConcMem(bg, n), newConcMem(bg, n)
		r.cpuA.Memory = r.a.dm
		r.wrapB = &opaqueMem{m: r.b.dm}
	} else {
		r.ma, r.mb = z80.MapMemory{}, z80.MapMemory{}
		r.cpuA.Memory = r.ma
		r.wrapB = &opaqueMem{m: r.mb}
	}
	r.cpuB.Memory = r.wrapB
	r.ioInit = make([]uint8, 256)
	for i := range r.ioInit {
		r.ioInit[i] = bg[0x4000+i*3]
	}
	r.ioA, r.ioB = make(z80.DumbIO, 256), make(z80.DumbIO, 256)
	r.cpuA.IO = r.ioA
	r.cpuB.IO = &opaqueIO{r.ioB}
	return r
}

func (r *concRunner) pokeBoth(a uint16, data ...uint8) {
	if r.a != nil {
		r.a.poke(a, data...)
		r.b.poke(a, data...)
		return
	}
	r.ma.Put(a, data...)
	r.mb.Put(a, data...)
}

// one runs the case on both CPUs and returns the differences.
func (r *concRunner) one(cs *Case) []string {
	if r.a != nil {
		r.a.restore()
		r.b.restore()
	} else {
		r.ma.Clear()
		r.mb.Clear()
	}
	for _, p := range cs.Pokes {
		r.pokeBoth(p.Addr, p.Data...)
	}
	r.pokeBoth(cs.S.PC, cs.Bytes...)
	if r.bankA != nil {
		r.a2.restore()
		r.b2.restore()
		r.bankA.cur, r.bankB.cur = 0, 0
		r.cpuA.Memory, r.cpuB.Memory = r.a.dm, r.wrapB
		r.wrapB2.limit = 4096
	}
	copy(r.ioA, r.ioInit)
	copy(r.ioB, r.ioInit)
	toCPU(&cs.S, &r.cpuA)
	toCPU(&cs.S, &r.cpuB)
	r.cpuA.Interrupt, r.cpuB.Interrupt = nil, nil
	r.wrapB.limit = 4096
	pa := c02Step(&r.cpuA)
	pb := c02Step(&r.cpuB)
	var d []string
	if pa != nil || pb != nil {
		if fmt.Sprint(pa) != fmt.Sprint(pb) {
			d = append(d, fmt.Sprintf("panic differs: unwrapped %v, wrapped %v", pa, pb))
		}
		return d
	}
	ga, gb := fromCPU(&r.cpuA), fromCPU(&r.cpuB)
	if ga != gb {
		d = append(d, fmt.Sprintf("post-state differs: device handed over as %s: %v ; same device behind an opaque wrapper: %v", concKinds[r.kind].name, stateMap(&ga), stateMap(&gb)))
	}
	if r.a != nil {
		if i := firstDiff(r.a.dm, r.b.dm); i >= 0 {
			d = append(d, fmt.Sprintf("memory contents differ at index %#x: unwrapped %02X, wrapped %02X (before the Step: %02X)", i, r.a.dm[i], r.b.dm[i], r.a.pristine[i]))
		}
	} else {
		if len(r.ma) != len(r.mb) {
			d = append(d, fmt.Sprintf("MapMemory sizes differ: unwrapped %d entries, wrapped %d", len(r.ma), len(r.mb)))
		}
		for k, v := range r.mb {
			if w, ok := r.ma[k]; !ok || w != v {
				d = append(d, fmt.Sprintf("MapMemory[%04X]: unwrapped %02X (present %v), wrapped %02X", k, w, ok, v))
				break
			}
		}
	}
	if r.romA != nil {
		if r.romA.gets != r.romB.gets || r.romA.sets != r.romB.sets || r.latA.ins != r.latB.ins || r.latA.outs != r.latB.outs {
			d = append(d, fmt.Sprintf("calls of the overriding methods differ: handed over directly Get x%d Set x%d In x%d Out x%d ; behind an opaque wrapper Get x%d Set x%d In x%d Out x%d (the embedded helper type was reached past the embedder's own methods)", r.romA.gets, r.romA.sets, r.latA.ins, r.latA.outs, r.romB.gets, r.romB.sets, r.latB.ins, r.latB.outs))
		}
		r.romA.gets, r.romA.sets, r.romB.gets, r.romB.sets = 0, 0, 0, 0
		r.latA.ins, r.latA.outs, r.latB.ins, r.latB.outs = 0, 0, 0, 0
	}
	if r.bankA != nil {
		if i := firstDiff(r.a2.dm, r.b2.dm); i >= 0 {
			d = append(d, fmt.Sprintf("contents of the second bank differ at index %#x: unwrapped %02X, wrapped %02X (before the Step: %02X)", i, r.a2.dm[i], r.b2.dm[i], r.a2.pristine[i]))
		}
		if r.bankA.cur != r.bankB.cur {
			d = append(d, "the two sides made a different number of port accesses")
		}
	}
	if i := firstDiff(r.ioA, r.ioB); i >= 0 {
		d = append(d, fmt.Sprintf("DumbIO contents differ at port %02X: unwrapped %02X, wrapped %02X", i, r.ioA[i], r.ioB[i]))
	}
	if _, ok := r.cpuA.Memory.(z80.DumbMemory); r.a != nil && r.bankA == nil && r.romA == nil && !ok {
		d = append(d, "CPU.Memory was replaced during the Step")
	}
	return d
}

type concJSON struct {
	Kind int      `json:"memory_kind"`
	Case CaseJSON `json:"case"`
}

// runConcreteTypes is the pass; encs are the encodings, fs the F values.
func runConcreteTypes(c *Ctx, name string, encs []*Enc, fs []uint8) {
	lat := newLattice(c.Salt, false)
	bg := obsBackground(c)
	var evals, nontriv [16 * 8]int64
	var capped int32
	runners := make([][]*concRunner, 16)
	parallel(int64(len(encs)), 1, 16, func(wi int, lo, hi int64) {
		if runners[wi] == nil {
			for k := range concKinds {
				runners[wi] = append(runners[wi], newConcRunner(bg, k))
			}
		}
		var ev, nt int64
		defer func() { evals[wi*8] += ev; nontriv[wi*8] += nt }()
		seen := map[protoKey]struct{}{}
		var cs Case
		for ei := lo; ei < hi; ei++ {
			e := encs[ei]
			failed := false
			lat.forEachProto(e, seen, func(idx int, p *Proto) {
				if failed || p.Env != 0 {
					return
				}
				materialise(p, e, &cs)
				for _, f := range fs {
					cs.S.F = f
					for k, r := range runners[wi] {
						if r.bankA != nil && !readsPort(e) && e.Inst.Kind != refz80.KOutnA && e.Inst.Kind != refz80.KOutC && e.Inst.Kind != refz80.KBlkOut {
							continue
						}
						d := r.one(&cs)
						ev++
						if len(d) > 0 {
							diff := append([]string{fmt.Sprintf("encoding %s (%s) at PC=%04X, memory %s, IO DumbIO len 256", e.Name, hexBytes(cs.Bytes), cs.S.PC, concKinds[k].name)}, d...)
							c.Report(name+":"+e.Name, int64(idx)*256+int64(f), "", concJSON{k, cs.toJSON(c.Salt)}, diff)
							failed = true
							return
						}
						pre := cs.S
						g := fromCPU(&r.cpuB)
						pre.PC, pre.R = g.PC, g.R
						if g != pre || r.wrapB.limit < 4096-len(cs.Bytes) {
							nt++
						}
					}
				}
			})
			if c.TimeUp() {
				if atomic.CompareAndSwapInt32(&capped, 0, 1) {
					c.Capped("time cap reached in the concrete-type pass")
				}
				return
			}
		}
	}, func() bool { return atomic.LoadInt32(&capped) != 0 })
	var tot, ntot int64
	for i := range evals {
		tot += evals[i]
		ntot += nontriv[i]
	}
	c.Evaluations += tot
	c.Transitions += 2 * tot
	c.Traces += tot
	c.States += tot
	c.Nontrivial += ntot
	c.Set("concrete_type_cases", tot)
	c.Set("concrete_type_kinds", fmt.Sprintf("%d memory kinds (DumbMemory len 65536, 65536+256, 32768; MapMemory) with DumbIO len 256, each unwrapped vs behind an opaque forwarding wrapper; %d F values; quick lattice", len(concKinds), len(fs)))
}

func replayConc(c *Ctx, raw []byte) []string {
	var j concJSON
	if err := json.Unmarshal(raw, &j); err != nil {
		return []string{"bad replay file: " + err.Error()}
	}
	if j.Kind < 0 || j.Kind >= len(concKinds) {
		return []string{"bad memory kind"}
	}
	cs := caseFromJSON(&j.Case)
	r := newConcRunner(obs.NewBackground(j.Case.Salt), j.Kind)
	return r.one(&cs)
}

var _ = refz80.KInvalid
