package main

// C01: every implemented instruction has exactly its Z80-defined effect in
// every state. ENUM engine against refz80: all implemented encodings x the
// register lattice x all 256 F; complete post-state, memory image, port
// writes. (Access logs: C05; refresh register: C14; notifications: C06.)
func init() {
	register("C01", checkC01)
	replayers["c01/step"] = func(c *Ctx, raw []byte) []string {
		return replayStepCase(c, raw, AspState|AspI|AspMem|AspPortsOut)
	}
}

func checkC01(c *Ctx) {
	c.Rule = "every encoding of the measured implemented set x lattice (4 all-distinct base vectors; each of 20 dimensions varied alone over its boundary set; aliasing pairs; index+d and PC-wrap pairs; all 256 d for indexed forms; thorough: all value pairs of the 9 pointer dimensions) x all 256 F; one real Step compared with refz80 on the complete state, the memory image and the port writes. Lattice points that coincide for an encoding are skipped (hash set), so cases are distinct; non-trivial = post-state differs from pre-state beyond PC/R or a data/port access happened (counted)."
	c.Bound = "lattice v1 " + c.Tier
	runStepConformance(c, stepConfOpts{name: "c01/step", aspects: AspState | AspI | AspMem | AspPortsOut})
	c.Assume("refz80 reproduces the zexdoc/zexall CRCs (vz80 selfcheck refcrc, run by setup_cmd)")
	c.Assume("policy table of DESIGN §6 (SCF/CCF and BIT n,(mem) bits 3/5 not compared; block-I/O undocumented flags preserved-or-silicon; RETI IFF1)")
	c.Assume("register files outside the lattice are not explored")
}
