package main

import (
	"fmt"
	"strings"
)

// C01: every implemented instruction has exactly its Z80-defined effect in
// every state. ENUM engine against refz80: all implemented encodings x the
// register lattice x all 256 F; complete post-state, memory image, port
// writes. (Access logs: C05; refresh register: C14; notifications: C06.)
func init() {
	register("C01", checkC01)
	replayers["c01/concrete"] = replayConc
	replayers["c01/firstuse"] = replayFirstUse
	replayers["c01/environment"] = replayEnvSense
	replayers["c01/step"] = func(c *Ctx, raw []byte) []string {
		return replayStepCase(c, raw, AspState|AspI|AspMem|AspPortsOut|AspFrame)
	}
}

func checkC01(c *Ctx) {
	c.Rule = "every encoding of the measured implemented set x lattice (4 all-distinct base vectors; each of 20 dimensions varied alone over its boundary set; aliasing pairs; index+d and PC-wrap pairs; all 256 d for indexed forms; thorough: all value pairs of the 9 pointer dimensions) x all 256 F; one real Step compared with refz80 on the complete state, the memory image and the port writes; at every memory/port callback of the Step the registers the instruction does not use (unchanged per refz80; A..L, alternates, I, IX, IY) hold their values, and block input shows the device the undecremented B. Lattice points that coincide for an encoding are skipped (hash set), so cases are distinct; non-trivial = post-state differs from pre-state beyond PC/R or a data/port access happened (counted). Concrete-type pass: every implemented encoding x quick lattice x 2 (thorough 16) F values on the package's own device types (DumbMemory of 3 lengths incl. longer than 64K, MapMemory, DumbIO) handed over unwrapped vs behind an opaque forwarding wrapper: same post-state and same device contents (a type-switched fast path must not deviate from the interface path that the main pass compares with refz80). First-use pass: every implemented encoding as the very first instruction of 2 fresh processes (all flags clear / all flags set, different register files), then swept over the quick lattice x 4 F against refz80 inside that process (lazily built package-level state must not capture the first user's registers)."
	c.Bound = "lattice v1 " + c.Tier
	var slow chan string
	if !c.Quick() {
		// silicon slow path (DESIGN §3): the pristine zexdoc/zexall/prelim images executed on refz80
		// behind the minimal BIOS, concurrently with the enumeration (2 cores, ~5 min)
		slow = make(chan string, 1)
		go func() {
			ok, rep := selfcheckRefImages(c.Verif, true)
			if !ok {
				rep = "FAILED: " + rep
			}
			slow <- rep
		}()
	}
	if ok, rep := selfcheckRefCRC(c.Verif); !ok {
		fmt.Println("framework error: refz80 no longer reproduces the silicon CRCs; refusing to judge the tree:", rep)
		c.Capped("framework error: reference model self-check failed")
		return
	} else {
		c.Set("reference_model_selfcheck", rep)
	}
	runStepConformance(c, stepConfOpts{name: "c01/step", aspects: AspState | AspI | AspMem | AspPortsOut | AspFrame})
	if set, err := implementedSet(c); err == nil {
		var encs []*Enc
		for i := range set.Encs {
			encs = append(encs, &set.Encs[i])
		}
		fs := []uint8{0x45, 0xBA}
		if !c.Quick() {
			fs = c02FSet(true)
		}
		runConcreteTypes(c, "c01/concrete", encs, fs)
		runFirstUse(c, "c01/firstuse", encs)
		runEnvSense(c, "c01/environment")
		runDeviceShapes(c, "c01/shapes")
	}
	if slow != nil {
		rep := <-slow
		c.Set("reference_model_silicon_slow_path", rep)
		if strings.HasPrefix(rep, "FAILED") {
			fmt.Println("framework error:", rep)
			c.Capped("framework error: reference model slow path failed")
		}
	}
	c.Assume("refz80 reproduces the zexdoc/zexall CRCs (vz80 selfcheck refcrc, run by setup_cmd)")
	c.Assume("policy table of DESIGN §6 (SCF/CCF and BIT n,(mem) bits 3/5 not compared; block-I/O undocumented flags preserved-or-silicon; RETI IFF1)")
	c.Assume("register files outside the lattice are not explored")
}
