package main

import (
	"context"
	"encoding/json"
	"fmt"
	"math"
	"sync/atomic"
	"time"

	z80 "github.com/koron-go/z80"
	"github.com/koron-go/z80/internal/verif/refz80"
)

// C12: Step and Run are total. ENUM under recover() with a deterministic
// watchdog (an access counter in the memory wrapper; no wall clock): every
// decode path x operand patterns x a configuration lattice (memory kind, IO
// kind, IM, PC, SP, pending request), every single-byte opcode and several
// multi-byte forms as mode-0 interrupt data, and Run on one-instruction
// programs against a Step-driven twin.
func init() {
	register("C12", checkC12)
	replayers["c12/total"] = replayC12
}

// countMem wraps any Memory, counts accesses and aborts after limit.
type countMem struct {
	m       z80.Memory
	n       int
	limit   int
	written []uint16
}

type watchdogPanic struct{ n int }

func (c *countMem) Get(a uint16) uint8 {
	c.n++
	if c.n > c.limit {
		panic(watchdogPanic{c.n})
	}
	return c.m.Get(a)
}

func (c *countMem) Set(a uint16, v uint8) {
	c.n++
	if c.n > c.limit {
		panic(watchdogPanic{c.n})
	}
	c.written = append(c.written, a)
	c.m.Set(a, v)
}

// c12Scratch holds the large reusable memories of one worker.
type c12Scratch struct {
	flat map[uint8]*fastMem
	dumb map[uint8]z80.DumbMemory
	live *liveSlot
}

func (sc *c12Scratch) slot() *liveSlot {
	if sc == nil {
		return nil
	}
	return sc.live
}

func newC12Scratch() *c12Scratch {
	return &c12Scratch{flat: map[uint8]*fastMem{}, dumb: map[uint8]z80.DumbMemory{}, live: newLiveSlot()}
}

// release restores the fill byte wherever the case stored something.
func (sc *c12Scratch) release(cm *countMem, kind int, fill uint8, pc uint16, n int) {
	if sc == nil || (kind != 0 && kind != 4) {
		return
	}
	for i := 0; i < n; i++ {
		cm.m.Set(pc+uint16(i), fill)
	}
	for _, a := range cm.written {
		cm.m.Set(a, fill)
	}
}

type c12Config struct {
	Mem   int    `json:"mem"` // 0 flat 64K; 1..4 DumbMemory len 0,1,256,32768; 5 MapMemory
	IO    int    `json:"io"`  // 0 nil; 1..4 DumbIO len 0,1,128,256
	IM    int    `json:"im"`
	PC    uint16 `json:"pc"`
	SP    uint16 `json:"sp"`
	Req   int    `json:"req"` // index into c12Requests
	IFF1  bool   `json:"iff1"`
	Fill  uint8  `json:"fill"`
	Bytes string `json:"bytes"`
	Run   bool   `json:"run,omitempty"`
	BPs   bool   `json:"breakpoints,omitempty"` // Run with a non-empty BreakPoints map (one address, 7777, off the program's path)
}

var c12MemLens = []int{-1, 0, 1, 256, 32768, -2}
// kinds 5..8: 256 ports that answer FFh, 80h, AAh and 7Fh (what a port answers is input like any other: a flag
// helper with a loop over the value read must end for every value)
var c12IOLens = []int{-1, 0, 1, 128, 256, 256, 256, 256, 256}
var c12IOFill = []uint8{0, 0, 0, 0, 0, 0xFF, 0x80, 0xAA, 0x7F}
var c12IMs = []int{0, 1, 2, -1, 3, math.MaxInt}

func c12Requests() []*z80.Interrupt {
	long := make([]uint8, 70000)
	for i := range long {
		long[i] = uint8(i)
	}
	return []*z80.Interrupt{
		nil,
		z80.NMIInterrupt(),
		{Type: z80.InterruptType(7)},
		{Type: z80.InterruptType(-1), Data: []uint8{0xFF}},
		z80.IM1Interrupt(),                  // empty data
		{Type: z80.IMType, Data: []uint8{}}, // empty, non-nil
		z80.IM2Interrupt(0xFF),
		z80.IM0Interrupt(0xFF),
		z80.IM0Interrupt(0xCD, 0x34, 0x12),
		z80.IM0Interrupt(0xC3, 0x00, 0x00),
		z80.IM0Interrupt(0x32, 0x00, 0x01), // LD (0100),A: writes into the overlay range
		z80.IM0Interrupt(0x3A, 0xFF, 0xFF), // LD A,(FFFF)
		z80.IM0Interrupt(0xDD, 0xCB),       // cut-off prefix sequence
		z80.IM0Interrupt(0xDD, 0x36, 0x01, 0x02),
		z80.IM0Interrupt(0xED, 0xB0),
		z80.IM0Interrupt(0x76),
		{Type: z80.IMType, Data: long},
	}
}

func c12BuildMem(kind int, fill uint8, pc uint16, code []uint8, sc *c12Scratch) z80.Memory {
	switch {
	case kind == 0:
		var m *fastMem
		if sc != nil {
			m = sc.flat[fill]
		}
		if m == nil {
			m = &fastMem{}
			if fill != 0 {
				for i := range m.b {
					m.b[i] = fill
				}
			}
			if sc != nil {
				sc.flat[fill] = m
			}
		}
		for i, b := range code {
			m.b[pc+uint16(i)] = b
		}
		return m
	case kind == 4 && sc != nil:
		m := sc.dumb[fill]
		if m == nil {
			m = make(z80.DumbMemory, c12MemLens[kind])
			for i := range m {
				m[i] = fill
			}
			sc.dumb[fill] = m
		}
		for i, b := range code {
			a := int(pc + uint16(i))
			if a < len(m) {
				m[a] = b
			}
		}
		return m
	case kind == 5:
		m := z80.MapMemory{}
		for i, b := range code {
			m[pc+uint16(i)] = b
		}
		return m
	default:
		l := c12MemLens[kind]
		m := make(z80.DumbMemory, l)
		for i := range m {
			m[i] = fill
		}
		for i, b := range code {
			a := int(pc + uint16(i))
			if a < l {
				m[a] = b
			}
		}
		return m
	}
}

func c12BuildIO(kind int) z80.IO {
	if kind == 0 {
		return nil
	}
	d := make(z80.DumbIO, c12IOLens[kind])
	if f := c12IOFill[kind]; f != 0 {
		for i := range d {
			d[i] = f
		}
	}
	return d
}

// c12One executes one configuration. Returns a diff or nil.
func c12One(cfg *c12Config, reqs []*z80.Interrupt, invalid *refz80.Inst, sc *c12Scratch) []string {
	code := parseHexBytes(cfg.Bytes)
	cm := &countMem{m: c12BuildMem(cfg.Mem, cfg.Fill, cfg.PC, code, sc), limit: 4096}
	defer sc.release(cm, cfg.Mem, cfg.Fill, cfg.PC, len(code))
	cpu := z80.CPU{Memory: cm}
	if io := c12BuildIO(cfg.IO); io != nil {
		cpu.IO = io
	}
	p := baseVector(0)
	toCPU(&p.S, &cpu)
	cpu.PC, cpu.SP, cpu.IM, cpu.IFF1 = cfg.PC, cfg.SP, cfg.IM, cfg.IFF1
	if r := reqs[cfg.Req]; r != nil {
		cp := *r
		cpu.Interrupt = &cp
	}
	pre := cpu.States
	var pan interface{}
	func() {
		defer func() { pan = recover() }()
		defer sc.slot().leave()
		sc.slot().enter(cfg)
		cpu.Step()
	}()
	if pan != nil {
		if wp, ok := pan.(watchdogPanic); ok {
			return []string{fmt.Sprintf("Step did not return within %d memory accesses (watchdog)", wp.n)}
		}
		return []string{fmt.Sprintf("Step panicked: %v", pan)}
	}
	prefixRun := len(code) >= 2 && (code[0] == 0xDD || code[0] == 0xFD) && (code[1] == 0xDD || code[1] == 0xFD || code[1] == 0xED)
	if invalid != nil && cfg.Req == 0 && cfg.Mem == 0 && prefixRun {
		// a run of prefixes: what counts as "the unsupported opcode" is not unique (this project consumes the
		// pair; silicon lets the last prefix win and executes what follows). Only require that something was
		// consumed and that nothing was written.
		adv := cpu.PC - pre.PC
		if adv < 2 || adv > 6 || len(cm.written) != 0 {
			return []string{fmt.Sprintf("prefix run %s: PC advanced by %d, %d memory writes (want 2..6 bytes consumed, no writes)", cfg.Bytes, adv, len(cm.written))}
		}
	} else if invalid != nil && cfg.Req == 0 && cfg.Mem == 0 {
		// unsupported opcode: consumed, nothing else changes but R
		exp := pre
		exp.PC = pre.PC + uint16(invalid.Len)
		exp.IR.Lo = cpu.IR.Lo
		if cpu.States != exp {
			g, e := fromCPU(&cpu), fromCPU(&z80.CPU{States: exp})
			return []string{fmt.Sprintf("unsupported opcode %s must only be consumed (%d bytes): want %v got %v", cfg.Bytes, invalid.Len, stateMap(&e), stateMap(&g))}
		}
	}
	return nil
}

// c12Run runs a one-instruction program (memory filled with HALT) through
// Run and through a Step-driven twin with the same budget.
func c12Run(cfg *c12Config, sc *c12Scratch) []string {
	code := parseHexBytes(cfg.Bytes)
	const budget = 20000
	var cms []*countMem
	defer func() {
		for _, cm := range cms {
			sc.release(cm, cfg.Mem, cfg.Fill, cfg.PC, len(code))
		}
	}()
	mk := func() (*z80.CPU, *countMem) {
		// the twin and the CPU under test run one after the other, so they may share the scratch memory
		for _, cm := range cms {
			sc.release(cm, cfg.Mem, cfg.Fill, cfg.PC, len(code))
		}
		cm := &countMem{m: c12BuildMem(cfg.Mem, cfg.Fill, cfg.PC, code, sc), limit: budget * 8}
		cms = append(cms, cm)
		cpu := &z80.CPU{Memory: cm}
		if io := c12BuildIO(cfg.IO); io != nil {
			cpu.IO = io
		}
		p := baseVector(1)
		toCPU(&p.S, cpu)
		cpu.PC, cpu.SP, cpu.IM = cfg.PC, cfg.SP, cfg.IM
		return cpu, cm
	}
	twin, _ := mk()
	halted := false
	var pan interface{}
	func() {
		defer func() { pan = recover() }()
		for i := 0; i < budget; i++ {
			liveStep(twin)
			if twin.HALT {
				halted = true
				return
			}
		}
	}()
	if pan != nil {
		if _, ok := pan.(watchdogPanic); !ok {
			return []string{fmt.Sprintf("Step-driven twin panicked: %v", pan)}
		}
		return nil
	}
	if !halted {
		return nil // program does not halt within the budget: Run is not obliged to return
	}
	cpu, _ := mk()
	if cfg.BPs {
		cpu.BreakPoints = map[uint16]struct{}{0x7777: {}}
	}
	err, pan, stuck := c12RunBackstop(cpu)
	if err == errC12Skipped {
		return nil
	}
	if stuck {
		return []string{fmt.Sprintf("Run did not return within %v although the Step-driven twin halts (no memory access budget was exhausted: the loop makes no progress); PC=%04X", c12Backstop, cpu.PC)}
	}
	if cfg.BPs && pan == nil && err == z80.ErrBreakPoint && cpu.PC == 0x7777 {
		return nil // the program wandered onto the breakpoint: not this check's subject
	}
	if pan != nil {
		if wp, ok := pan.(watchdogPanic); ok {
			return []string{fmt.Sprintf("Run did not return although the program halts (watchdog after %d accesses)", wp.n)}
		}
		return []string{fmt.Sprintf("Run panicked: %v", pan)}
	}
	if err != nil || cpu.States != twin.States || !cpu.HALT {
		g, e := fromCPU(cpu), fromCPU(twin)
		return []string{fmt.Sprintf("Run returned %v with state %v ; Step-driven twin halted with %v", err, stateMap(&g), stateMap(&e))}
	}
	return nil
}

func checkC12(c *Ctx) {
	reqs := c12Requests()
	// decode paths incl. all displacement bytes for DDCB/FDCB
	type path struct {
		bytes   []uint8
		invalid *refz80.Inst
	}
	var paths []path
	add := func(t []uint8) {
		e := buildEnc(t)
		var inv *refz80.Inst
		if !e.Valid {
			in := e.Inst
			inv = &in
		}
		paths = append(paths, path{t, inv})
	}
	for _, t := range decodePaths() {
		if len(t) == 4 {
			continue
		}
		add(t)
	}
	for _, p := range []uint8{0xDD, 0xFD} {
		for d := 0; d < 256; d++ {
			for op := 0; op < 256; op++ {
				add([]uint8{p, 0xCB, uint8(d), uint8(op)})
			}
		}
	}
	set, err := implementedSet(c)
	if err != nil {
		fmt.Println("framework error:", err)
		c.Capped("framework error: " + err.Error())
		return
	}
	extra := map[string]bool{}
	for _, x := range set.Extra {
		extra[x] = true
	}
	operandPats := [][]uint8{{0, 0}, {1, 0}, {0x7F, 0x7F}, {0x80, 0x80}, {0xFF, 0xFF}, {0xFE, 0xFF}, {0xDD, 0xDD}, {0xFD, 0xDD}, {0xED, 0xED}, {0xCB, 0xCB}}
	type cfgv struct {
		mem, io, im, req int
		pc, sp           uint16
		iff1             bool
		fill             uint8
	}
	def := cfgv{mem: 0, io: 4, im: 1, req: 0, pc: 0x0100, sp: 0x8000}
	var cfgs []cfgv
	cfgs = append(cfgs, def)
	for m := 1; m < len(c12MemLens); m++ {
		x := def
		x.mem = m
		cfgs = append(cfgs, x)
		x.pc = 0xFFFF
		cfgs = append(cfgs, x)
	}
	for i := 0; i < len(c12IOLens); i++ {
		x := def
		x.io = i
		cfgs = append(cfgs, x)
	}
	for _, im := range c12IMs {
		x := def
		x.im = im
		cfgs = append(cfgs, x)
		x.req, x.iff1 = 7, true // maskable pending and enabled with this IM
		cfgs = append(cfgs, x)
	}
	for _, pc := range []uint16{0x0000, 0xFFFC, 0xFFFD, 0xFFFE, 0xFFFF} {
		x := def
		x.pc = pc
		cfgs = append(cfgs, x)
	}
	// memories in which every other byte is the same prefix / opcode (runs of prefixes that never end, ...)
	for _, fill := range []uint8{0xDD, 0xFD, 0xED, 0xCB, 0xFF, 0x76, 0x18, 0x10} {
		for _, pc := range []uint16{0x0100, 0xFFFF} {
			x := def
			x.pc, x.fill = pc, fill
			cfgs = append(cfgs, x)
		}
	}
	for _, sp := range []uint16{0x0000, 0x0001, 0x0002, 0xFFFF, 0x0101, 0x0102} {
		x := def
		x.sp = sp
		cfgs = append(cfgs, x)
	}
	for r := 1; r < len(reqs); r++ {
		for _, iff := range []bool{false, true} {
			x := def
			x.req, x.iff1 = r, iff
			cfgs = append(cfgs, x)
			x.im = 0
			cfgs = append(cfgs, x)
			x.im, x.pc = 2, 0xFFFF
			cfgs = append(cfgs, x)
		}
	}
	if !c.Quick() {
		// all pairs (memory kind x request x IM) and (PC x SP)
		for m := 0; m < len(c12MemLens); m++ {
			for r := 0; r < len(reqs); r++ {
				for _, im := range c12IMs {
					x := def
					x.mem, x.req, x.im, x.iff1 = m, r, im, true
					cfgs = append(cfgs, x)
				}
			}
		}
		for _, pc := range []uint16{0x0000, 0xFFFC, 0xFFFD, 0xFFFE, 0xFFFF} {
			for _, sp := range []uint16{0x0000, 0x0001, 0x0002, 0xFFFF, pc + 1, pc + 2} {
				x := def
				x.pc, x.sp = pc, sp
				cfgs = append(cfgs, x)
			}
		}
	}
	c.Rule = fmt.Sprintf("every decode path (%d byte prefixes incl. all 65536 (d,op) pairs after DDCB/FDCB) x %d operand byte patterns x %d configurations (memory kind {64K array, DumbMemory len 0/1/256/32768, MapMemory} / IO kind {nil, DumbIO len 0/1/128/256, 256 ports answering FF/80/AA/7F} / IM {0,1,2,-1,3,MaxInt} / PC {0000,0100,FFFC..FFFF} / SP / pending request {none, NMI, unknown types, IM1, IM2, mode-0 data of 1..4 bytes and 70000 bytes} one at a time around a default, thorough: pairs); all 256 single-byte opcodes and multi-byte forms as mode-0 data x IM x IFF1 x PC x memory kind; mode-0 data of 5/8/300 bytes starting with each of the 256 opcodes with every pointer register aimed into and around [PC, PC+len); Run on a halting program with every request kind pending x IM x IFF1; Run vs Step-driven twin on every decode path as a one-instruction program in HALT-filled memory (at 0100, FFC0 and FFFA, with and without a non-empty BreakPoints map). the real DumbMemory (6 lengths) and MapMemory passed to the CPU unwrapped x every decode path x operand patterns x 4 PCs x 7 SPs; memories filled with a single prefix/opcode byte; thorough: 14 soak loops, one CPU value each, every instruction family (CALL/RET, RST, PUSH/POP, jumps, block elements, port I/O, unsupported op-codes, accepted IM1/NMI/mode-0 requests, HALT wake-up, read-modify-write, 16-bit loads) executed 2^31+2^16 times: no panic, stack balanced, control inside the loop; a port device that also implements the exported (unused) INT/NMI interfaces and holds its lines until ReturnNMI/ReturnINT: the program reaches its HALT; Run called from inside a device callback of a running Run on the same CPU (BIOS-trap style, both programs halt); one CPU value stepped through the whole decode tree twice (every supported and unsupported encoding on the same object); an embedder re-pointing CPU.Memory/CPU.IO from inside the callback at access 0..4 of the Step x all 256 first bytes x 4 tails, from memory and as mode-0 data; Oracle: no panic, deterministic watchdog (4096 accesses per Step), unsupported opcodes only consumed. Non-trivial = the configuration deviates from the default in memory/IO/IM/request or the path is an unsupported or prefix-only encoding (counted).", len(paths), len(operandPats), len(cfgs))
	c.Bound = "decode tree x configuration lattice " + c.Tier
	var evals, nontriv [16 * 8]int64
	var capped int32
	scratches := make([]*c12Scratch, 16)
	parallel(int64(len(paths)), 64, 16, func(wi int, lo, hi int64) {
		var ev, nt int64
		defer func() { evals[wi*8] += ev; nontriv[wi*8] += nt }()
		sc := scratches[wi]
		if sc == nil {
			sc = newC12Scratch()
			scratches[wi] = sc
		}
		for pi := lo; pi < hi; pi++ {
			p := paths[pi]
			name := encName(p.bytes)
			inv := p.invalid
			if inv != nil && extra[name] {
				inv = nil // implemented by the tree beyond the pinned set: totality only
			}
			pats := operandPats
			if len(p.bytes) == 4 {
				pats = operandPats[:2] // (d,op) already enumerated
			}
			for oi, op := range pats {
				full := append(append([]uint8{}, p.bytes...), op...)
				for ci, cf := range cfgs {
					if len(p.bytes) == 4 && ci > 0 && (p.bytes[2]%16 != 0) {
						continue // DDCB/FDCB: configurations for every 16th displacement only
					}
					cfg := c12Config{Mem: cf.mem, IO: cf.io, IM: cf.im, PC: cf.pc, SP: cf.sp, Req: cf.req, IFF1: cf.iff1, Fill: cf.fill, Bytes: hexBytes(full)}
					d := c12One(&cfg, reqs, inv, sc)
					ev++
					if ci > 0 || inv != nil {
						nt++
					}
					if d != nil {
						c.Report("c12/total:"+name, pi*1000+int64(oi*100+ci), "", cfg, cloneStrings(d))
						break
					}
				}
			}
			// Run totality
			for _, mk := range []int{0, 4, 5} {
				fill := uint8(0x76)
				cfg := c12Config{Mem: mk, IO: 4, IM: 1, PC: 0x0100, SP: 0x8000, Fill: fill, Bytes: hexBytes(append(append([]uint8{}, p.bytes...), 0x76, 0x76)), Run: true}
				if len(p.bytes) == 4 && p.bytes[2]%32 != 0 {
					continue
				}
				d := c12Run(&cfg, sc)
				ev++
				nt++
				if d == nil && mk == 0 {
					// the same at the top of the address space, with and without a breakpoint map
					for _, pc := range []uint16{0xFFC0, 0xFFFA} {
						for _, bps := range []bool{false, true} {
							cfg2 := cfg
							cfg2.PC, cfg2.BPs = pc, bps
							if d = c12Run(&cfg2, sc); d != nil {
								cfg = cfg2
								break
							}
							ev++
							nt++
						}
						if d != nil {
							break
						}
					}
				}
				if d != nil {
					c.Report("c12/run:"+name, pi, "", cfg, cloneStrings(d))
					break
				}
			}
		}
		if c.TimeUp() {
			if atomic.CompareAndSwapInt32(&capped, 0, 1) {
				c.Capped("time cap reached")
			}
		}
	}, func() bool { return atomic.LoadInt32(&capped) != 0 })
	// mode-0 data: every single-byte opcode (and two- and three-byte tails)
	var n int64
	sc0 := newC12Scratch()
	for b0 := 0; b0 < 256; b0++ {
		for _, tail := range [][]uint8{nil, {0x00}, {0x34, 0x12}, {0xCB, 0x01, 0x06}, {0xFF, 0xFF, 0xFF}} {
			data := append([]uint8{uint8(b0)}, tail...)
			for _, im := range c12IMs {
				for _, pc := range []uint16{0x0100, 0xFFFD, 0xFFFE, 0xFFFF, 0x0000} {
					for _, mk := range []int{0, 2, 4, 5} {
						for _, sp := range []uint16{0x8000, pc + 1, pc + 2, 0x0001} {
							cm := &countMem{m: c12BuildMem(mk, 0x00, pc, []uint8{0x3C}, sc0), limit: 4096}
							cpu := z80.CPU{Memory: cm, IO: make(z80.DumbIO, 3)}
							cpu.PC, cpu.SP, cpu.IM, cpu.IFF1 = pc, sp, im, true
							cpu.Interrupt = &z80.Interrupt{Type: z80.IMType, Data: data}
							var pan interface{}
							func() {
								defer func() { pan = recover() }()
								liveStep(&cpu)
								liveStep(&cpu)
							}()
							n++
							sc0.release(cm, mk, 0x00, pc, 1)
							if pan != nil {
								cfg := map[string]interface{}{"int_data": hexBytes(data), "im": im, "pc": pc, "sp": sp, "mem": mk}
								c.Report(fmt.Sprintf("c12/im0data:%02X", b0), n, "", cfg, []string{fmt.Sprintf("Step with maskable request data % X, IM=%d, PC=%04X, SP=%04X, memory kind %d: %v", data, im, pc, sp, mk, pan)})
							}
						}
					}
				}
			}
		}
	}
	// ONE CPU value for the whole decode tree: a machine that lives long meets every encoding, supported or
	// not, on the same CPU object; whatever the CPU accumulates over its lifetime (a warning de-duplication
	// set, a decode cache, counters) must not make a later Step panic. Twice over, the second time by Run.
	{
		flat := &fastMem{}
		cm := &countMem{m: flat, limit: 1 << 30}
		cpu := z80.CPU{Memory: cm, IO: make(z80.DumbIO, 256)}
		var nl int64
		for pass := 0; pass < 2; pass++ {
			for pi := range paths {
				p := paths[pi]
				for i, b := range p.bytes {
					flat.b[0x0100+i] = b
				}
				flat.b[0x0100+len(p.bytes)] = 0x76
				flat.b[0x0100+len(p.bytes)+1] = 0x76
				cpu.PC, cpu.SP, cpu.IM, cpu.HALT = 0x0100, 0x8000, 1, false
				cpu.Interrupt = nil
				cm.n, cm.written = 0, cm.written[:0]
				cm.limit = cm.n + 4096
				var pan interface{}
				func() {
					defer func() { pan = recover() }()
					liveStep(&cpu)
					liveStep(&cpu)
				}()
				nl++
				for _, a := range cm.written {
					flat.b[a] = 0
				}
				for i := 0; i < len(p.bytes)+2; i++ {
					flat.b[0x0100+i] = 0
				}
				if pan != nil {
					c.Report("c12/longlived:"+encName(p.bytes), nl, "", map[string]interface{}{"bytes": hexBytes(p.bytes), "encodings_executed_before_on_this_cpu": nl - 1}, []string{fmt.Sprintf("one CPU value stepping through the whole decode tree: after %d earlier encodings, Step on % X panicked: %v", nl-1, p.bytes, pan)})
					break
				}
			}
		}
		n += nl
		c.Set("long_lived_cpu_steps", nl)
	}
	// thorough: 14 soak loops, one CPU value each, every instruction family (CALL/RET, RST, PUSH/POP, jumps, block elements, port I/O, unsupported op-codes, accepted IM1/NMI/mode-0 requests, HALT wake-up, read-modify-write, 16-bit loads) executed 2^31+2^16 times: no panic, stack balanced, control inside the loop; a port device that also implements the exported (unused) INT/NMI interfaces and holds its lines until ReturnNMI/ReturnINT: the program reaches its HALT; Run called from inside a device callback of a running Run on the SAME CPU (a BIOS-trap style device: an OUT
	// or a store to a trap address makes the host run a service routine on the CPU and then resume). Both
	// programs halt, so both Runs return. A lock or a flag that makes Run non-reentrant hangs here without a
	// single memory access, so this is the one place with a wall-clock backstop (60 s for microseconds of work).
	for variant := 0; variant < 2; variant++ {
		mem := make(z80.DumbMemory, 0x10000)
		// main: LD A,1 ; OUT (10h),A ; LD (5000h),A ; LD B,A ; HALT      service: INC A ; INC A ; HALT
		mem.Put(0x0000, 0x3E, 0x01, 0xD3, 0x10, 0x32, 0x00, 0x50, 0x47, 0x76)
		mem.Put(0x4000, 0x3C, 0x3C, 0x76)
		cpu := &z80.CPU{}
		trap := &trapDev{cpu: cpu, mem: mem, service: 0x4000, onOut: variant == 0}
		cpu.Memory, cpu.IO = trap, trap
		done := make(chan interface{}, 1)
		go func() {
			defer func() {
				if r := recover(); r != nil {
					done <- r
				}
			}()
			done <- cpu.Run(bgCtx)
		}()
		var res interface{}
		timedOut := false
		select {
		case res = <-done:
		case <-time.After(60 * time.Second):
			timedOut = true
		}
		n++
		what := map[bool]string{true: "an OUT (10h),A", false: "a store to 5000h"}[variant == 0]
		switch {
		case timedOut:
			c.Report("c12/nested-run", int64(variant), "", map[string]interface{}{"trap_on_out": variant == 0}, []string{fmt.Sprintf("Run did not return within 60 s: the device callback of %s calls Run on the same CPU for a halting service routine and resumes; both programs halt (trap calls so far: %d, PC=%04X)", what, trap.calls, cpu.PC)})
		case res != nil:
			c.Report("c12/nested-run", int64(variant), "", map[string]interface{}{"trap_on_out": variant == 0}, []string{fmt.Sprintf("Run with a nested Run from the callback of %s: %v", what, res)})
		case trap.calls != 1 || cpu.BC.Hi != 3 || cpu.PC != 0x0008 || !cpu.HALT || mem[0x5000] != 3 && variant == 0:
			c.Report("c12/nested-run", int64(variant), "", map[string]interface{}{"trap_on_out": variant == 0}, []string{fmt.Sprintf("Run with a nested Run from the callback of %s ended wrongly: trap calls %d (want 1), B=%02X (want 03), PC=%04X (want 0008), HALT=%v, (5000h)=%02X", what, trap.calls, cpu.BC.Hi, cpu.PC, cpu.HALT, mem[0x5000])})
		}
	}
	// a port device that ALSO implements the package's exported INT and NMI interfaces (documented in z80.go,
	// unused by the pinned tree) and holds its request lines active until ReturnNMI / ReturnINT is called, as
	// the comments there describe. Whether or not a tree polls such a device, a three-instruction program
	// with handlers that return at once must reach its HALT.
	for im := 0; im < 3; im++ {
		flat := &fastMem{}
		for i, b := range []uint8{0xFB, 0x00, 0x00, 0x76} {
			flat.b[0x0100+i] = b
		}
		flat.b[0x0066], flat.b[0x0067] = 0xED, 0x45                       // RETN
		flat.b[0x0038], flat.b[0x0039], flat.b[0x003A] = 0xFB, 0xED, 0x4D // EI ; RETI
		flat.b[0x2040], flat.b[0x2041] = 0x38, 0x00                       // mode-2 table entry -> 0038
		cm := &countMem{m: flat, limit: 20000}
		dev := &lineDev{nmi: true, intr: true}
		cpu := z80.CPU{Memory: cm, IO: dev}
		cpu.PC, cpu.SP, cpu.IM = 0x0100, 0x8000, im
		cpu.IR.Hi = 0x20
		err, pan, stuck := c12RunBackstop(&cpu)
		n++
		if err == errC12Skipped {
			continue
		}
		if stuck || pan != nil || err != nil || !cpu.HALT {
			what := fmt.Sprintf("%v", pan)
			if stuck {
				what = fmt.Sprintf("Run did not return within %v", c12Backstop)
			} else if _, ok := pan.(watchdogPanic); ok {
				what = "Run did not return (deterministic watchdog: 20000 memory accesses for a program of 4 instructions and two handlers that return at once)"
			}
			c.Report("c12/line-device", int64(im), "", map[string]interface{}{"im": im}, []string{fmt.Sprintf("IM %d; CPU.IO is a device that also implements z80.INT and z80.NMI and holds its request lines until ReturnNMI/ReturnINT: %s; error %v, HALT=%v, PC=%04X, CheckNMI called %d times, CheckINT %d, ReturnNMI %d, ReturnINT %d", im, what, err, cpu.HALT, cpu.PC, dev.nCheckNMI, dev.nCheckINT, dev.nRetNMI, dev.nRetINT)})
		}
	}
	runMachineScenario(c, "c12/machine")
	if !c.Quick() {
		n += c12Soak(c)
	}
	// an embedder that switches banks by re-pointing CPU.Memory (and CPU.IO) from inside a device callback, at
	// the k-th access of the Step: which object serves the remaining accesses is nobody's promise, but the
	// Step must not panic, with the instruction in memory or supplied as mode-0 data
	{
		var ns int64
		for b0 := 0; b0 < 256; b0++ {
			for _, tail := range [][]uint8{nil, {0x34, 0x12}, {0xCB, 0x01, 0x06}, {0x10, 0x20, 0x30}} {
				data := append([]uint8{uint8(b0)}, tail...)
				for _, pc := range []uint16{0x0100, 0xFFFE} {
					for _, sp := range []uint16{0x8000, pc + 1, 0x0000} {
						for at := 0; at < 5; at++ {
							for mode0 := 0; mode0 < 2; mode0++ {
								flat := c12BuildMem(0, 0x00, pc, nil, sc0).(*fastMem)
								sw := &swapDev{under: flat, at: at}
								a, b := &swapMem{sw}, &swapMem{sw}
								sw.objs = [2]z80.Memory{a, b}
								ioA, ioB := &swapIO{sw}, &swapIO{sw}
								sw.ios = [2]z80.IO{ioA, ioB}
								cpu := z80.CPU{Memory: a, IO: ioA}
								sw.cpu = &cpu
								cpu.PC, cpu.SP, cpu.IM, cpu.IFF1 = pc, sp, 0, true
								if mode0 == 1 {
									cpu.Interrupt = &z80.Interrupt{Type: z80.IMType, Data: data}
								} else {
									for i, x := range data {
										flat.Set(pc+uint16(i), x)
									}
								}
								var pan interface{}
								func() {
									defer func() { pan = recover() }()
									liveStep(&cpu)
									liveStep(&cpu)
								}()
								ns++
								for _, wa := range sw.written {
									flat.Set(wa, 0x00)
								}
								for i := range data {
									flat.Set(pc+uint16(i), 0x00)
								}
								if pan != nil {
									cfg := map[string]interface{}{"bytes": hexBytes(data), "as_mode0_data": mode0 == 1, "pc": pc, "sp": sp, "swap_at_access": at}
									c.Report(fmt.Sprintf("c12/reentrant:%02X", b0), ns, "", cfg, []string{fmt.Sprintf("instruction % X (as mode-0 request data: %v), PC=%04X SP=%04X; the device callback re-points CPU.Memory and CPU.IO at access %d of the Step: %v", data, mode0 == 1, pc, sp, at, pan)})
								}
							}
						}
					}
				}
			}
		}
		n += ns
		c.Set("reentrant_bank_switch_cases", ns)
	}
	// the real memory types handed to the CPU UNWRAPPED (a wrapper hides the concrete type, and with it any
	// type-dependent fast path): every decode path x operand patterns x lengths x SP/PC at the edges.
	// No access-count watchdog is possible here; a wall-clock backstop of two minutes guards the check.
	{
		var cur atomic.Value
		cur.Store("")
		done := c.WatchWall(func() string { return "Step on an unwrapped memory: " + cur.Load().(string) })
		type rawMem struct {
			name string
			mk   func() z80.Memory
			put  func(m z80.Memory, a uint16, b uint8)
		}
		var raws []rawMem
		for _, l := range []int{1, 2, 256, 32768, 65535, 65536} {
			l := l
			raws = append(raws, rawMem{fmt.Sprintf("DumbMemory len %d", l), func() z80.Memory { return make(z80.DumbMemory, l) }, func(m z80.Memory, a uint16, b uint8) { m.Set(a, b) }})
		}
		raws = append(raws, rawMem{"MapMemory", func() z80.Memory { return z80.MapMemory{} }, func(m z80.Memory, a uint16, b uint8) { m.Set(a, b) }})
		var rawN [16 * 8]int64
		parallel(int64(len(raws)), 1, len(raws), func(wi int, lo, hi int64) {
			for ri := lo; ri < hi; ri++ {
				rm := raws[ri]
				n := &rawN[wi*8]
				mem := rm.mk()
				for pi := range paths {
					p := paths[pi]
					if len(p.bytes) == 4 && p.bytes[2]%64 != 0 {
						continue
					}
					for _, op := range operandPats {
						full := append(append([]uint8{}, p.bytes...), op...)
						for _, pc := range []uint16{0x0000, 0x00FC, 0x7FFC, 0xFFFD} {
							for _, sp := range []uint16{0x0000, 0x0001, 0x0002, 0x0100, 0x8000, 0xFFFE, 0xFFFF} {
								for i, b := range full {
									rm.put(mem, pc+uint16(i), b)
								}
								cpu := z80.CPU{Memory: mem, IO: make(z80.DumbIO, 4)}
								cpu.PC, cpu.SP = pc, sp
								cpu.HL.SetU16(sp)
								cpu.IX, cpu.IY = sp, 0xFFFF
								cpu.BC.SetU16(0xFFFF)
								cpu.DE.SetU16(0xFFFE)
								if wi == 0 {
									cur.Store(fmt.Sprintf("%s, bytes %s at PC=%04X, SP=HL=IX=%04X", rm.name, hexBytes(full), pc, sp))
								}
								var pan interface{}
								func() {
									defer func() { pan = recover() }()
									liveStep(&cpu)
								}()
								*n++
								if pan != nil {
									c.Report("c12/rawmem:"+rm.name, *n, "", map[string]string{"memory": rm.name, "bytes": hexBytes(full), "pc": fmt.Sprintf("%04X", pc), "sp": fmt.Sprintf("%04X", sp)}, []string{fmt.Sprintf("Step on %s (passed to the CPU directly), bytes %s at PC=%04X, SP=HL=IX=%04X, BC=IY=FFFF, DE=FFFE: %v", rm.name, hexBytes(full), pc, sp, pan)})
									goto nextRaw
								}
							}
						}
					}
				}
			nextRaw:
			}
		}, nil)
		for i := range rawN {
			n += rawN[i]
		}
		done()
	}
	// mode-0 data longer than any instruction, the supplied instruction reading / writing / jumping through
	// pointers into and around the window [PC, PC+len(data))
	for b0 := 0; b0 < 256; b0++ {
		for _, dl := range []int{5, 8, 300} {
			for _, pc := range []uint16{0x0100, 0xFFFD} {
				for _, k := range []int{0, 1, 3, 4, 5, dl - 1, dl, -1} {
					for _, mk := range []int{0, 5} {
						data := make([]uint8, dl)
						data[0] = uint8(b0)
						for i := 1; i < dl; i++ {
							data[i] = uint8(0x40 + i) // LD r,r' filler: harmless if executed
						}
						ptr := pc + uint16(k)
						cm := &countMem{m: c12BuildMem(mk, 0x00, pc, []uint8{0x3C}, sc0), limit: 4096}
						cpu := z80.CPU{Memory: cm, IO: make(z80.DumbIO, 3)}
						cpu.PC, cpu.IM, cpu.IFF1 = pc, 0, true
						cpu.SP, cpu.IX, cpu.IY = ptr, ptr, ptr
						cpu.HL.SetU16(ptr)
						cpu.BC.SetU16(ptr)
						cpu.DE.SetU16(ptr)
						cpu.Interrupt = &z80.Interrupt{Type: z80.IMType, Data: data}
						var pan interface{}
						func() {
							defer func() { pan = recover() }()
							liveStep(&cpu)
							liveStep(&cpu)
						}()
						n++
						sc0.release(cm, mk, 0x00, pc, 1)
						if pan != nil {
							cfg := map[string]interface{}{"int_data_first_byte": b0, "int_data_len": dl, "pc": pc, "pointer_registers": ptr, "mem": mk}
							c.Report(fmt.Sprintf("c12/im0long:%02X", b0), n, "", cfg, []string{fmt.Sprintf("Step with a %d-byte mode-0 request starting with %02X at PC=%04X, SP=HL=BC=DE=IX=IY=%04X, memory kind %d: %v", dl, b0, pc, ptr, mk, pan)})
						}
					}
				}
			}
		}
	}
	// Run with a request that can never be accepted: the program's HALT must still end the run
	for ri := range reqs {
		for _, im := range c12IMs {
			for _, iff1 := range []bool{false, true} {
				cm := &countMem{m: c12BuildMem(0, 0x76, 0x0100, []uint8{0x00, 0x3C, 0x76}, sc0), limit: 200000}
				cpu := z80.CPU{Memory: cm, IO: make(z80.DumbIO, 256)}
				cpu.PC, cpu.SP, cpu.IM, cpu.IFF1 = 0x0100, 0x8000, im, iff1
				if r := reqs[ri]; r != nil {
					cp := *r
					cpu.Interrupt = &cp
				}
				err, pan, stuck := c12RunBackstop(&cpu)
				n++
				if !stuck {
					sc0.release(cm, 0, 0x76, 0x0100, 3)
				}
				if err == errC12Skipped {
					continue
				}
				if stuck || pan != nil || err != nil || !cpu.HALT {
					what := fmt.Sprintf("returned %v, HALT=%v", err, cpu.HALT)
					if stuck {
						what = fmt.Sprintf("did not return within %v (the loop makes no memory access: no progress)", c12Backstop)
					} else if wp, ok := pan.(watchdogPanic); ok {
						what = fmt.Sprintf("did not return (deterministic watchdog after %d memory accesses)", wp.n)
					} else if pan != nil {
						what = fmt.Sprintf("panicked: %v", pan)
					}
					cfg := map[string]interface{}{"request": ri, "im": im, "iff1": iff1}
					c.Report(fmt.Sprintf("c12/run-pending:%d", ri), n, "", cfg, []string{fmt.Sprintf("Run on NOP;INC A;HALT (HALT-filled memory) with request #%d pending, IM=%d, IFF1=%v: %s", ri, im, iff1, what)})
				}
			}
		}
	}
	for i := range evals {
		c.Evaluations += evals[i]
		c.Nontrivial += nontriv[i]
	}
	c.Evaluations += n
	c.Nontrivial += n
	c.Transitions = c.Evaluations
	c.Traces = c.Evaluations
	c.States = c.Evaluations
	c.Exhaustive = true
	c.Set("decode_paths", len(paths))
	c.Set("configurations", len(cfgs))
	c.Sample(c12Config{Mem: 2, IO: 0, IM: math.MaxInt, PC: 0xFFFF, SP: 1, Req: 7, IFF1: true, Bytes: "DD CB"})
	c.Sample(c12Config{Mem: 5, IO: 1, IM: 0, PC: 0xFFFE, SP: 0xFFFF, Req: 16, IFF1: true, Bytes: "ED B0"})
	c.Assume("'hang' is decided by a deterministic access-count watchdog (4096 memory accesses per Step, 160000 per Run of a program whose Step-driven twin halts within 20000 Steps), not by wall-clock time")
	c.Assume("the statement's 'coverage-guided and random generation' is replaced by the complete decode tree x a configuration lattice")
}

// c12RunBackstop calls cpu.Run so that a Run which spins without touching memory (where the access-count
// watchdog cannot see it) still ends the check: Run gets a cancellable context, and when it has not returned
// after c12Backstop - for programs of a few instructions - the case is reported as stuck, the context is
// cancelled, and an abandoned goroutine is the worst that remains. After two stuck cases further calls are
// not made (they return at once, unjudged), so a tree that hangs everywhere costs two backstops, not hundreds.
const c12Backstop = 30 * time.Second

var c12StuckCount int32

var errC12Skipped = fmt.Errorf("not run: two earlier Run calls of this check did not return")

func c12RunBackstop(cpu *z80.CPU) (err error, pan interface{}, stuck bool) {
	if atomic.LoadInt32(&c12StuckCount) >= 2 {
		return errC12Skipped, nil, false
	}
	ctx, cancel := context.WithCancel(bgCtx)
	defer cancel()
	type res struct {
		err error
		pan interface{}
	}
	done := make(chan res, 1)
	go func() {
		var r res
		defer func() {
			if p := recover(); p != nil {
				r.pan = p
			}
			done <- r
		}()
		r.err = cpu.Run(ctx)
	}()
	t := time.NewTimer(c12Backstop)
	defer t.Stop()
	select {
	case r := <-done:
		return r.err, r.pan, false
	case <-t.C:
	}
	atomic.AddInt32(&c12StuckCount, 1)
	cancel()
	select {
	case <-done:
	case <-time.After(5 * time.Second):
	}
	return nil, nil, true
}

func replayC12(c *Ctx, raw []byte) []string {
	var cfg c12Config
	if err := json.Unmarshal(raw, &cfg); err != nil || cfg.Bytes == "" {
		return []string{"replay of this C12 case shape is not supported; see the diff in the file"}
	}
	if cfg.Run {
		return c12Run(&cfg, nil)
	}
	code := parseHexBytes(cfg.Bytes)
	e := buildEnc(code)
	var inv *refz80.Inst
	if !e.Valid {
		inv = &e.Inst
	}
	return c12One(&cfg, c12Requests(), inv, nil)
}

// swapDev: two Memory objects and two IO objects over the same storage; at access number `at` the callback
// re-points the CPU's fields to the other object of each pair (bank switching by replacing the object).
type swapDev struct {
	under   *fastMem
	cpu     *z80.CPU
	objs    [2]z80.Memory
	ios     [2]z80.IO
	at, n   int
	written []uint16
}

func (s *swapDev) tick() {
	if s.n == s.at {
		s.cpu.Memory = s.objs[1]
		s.cpu.IO = s.ios[1]
	}
	s.n++
	if s.n > 4096 {
		panic(watchdogPanic{s.n})
	}
}

type swapMem struct{ d *swapDev }

func (m *swapMem) Get(a uint16) uint8 { m.d.tick(); return m.d.under.Get(a) }
func (m *swapMem) Set(a uint16, v uint8) {
	m.d.tick()
	m.d.written = append(m.d.written, a)
	m.d.under.Set(a, v)
}

type swapIO struct{ d *swapDev }

func (o *swapIO) In(p uint8) uint8     { o.d.tick(); return p ^ 0x5A }
func (o *swapIO) Out(p uint8, v uint8) { o.d.tick() }

// trapDev is memory and port device of a machine whose host services a trap by running a routine on the CPU
// itself: Run called from inside the callback, on the same CPU, then the interrupted program resumes.
type trapDev struct {
	cpu     *z80.CPU
	mem     z80.DumbMemory
	service uint16
	onOut   bool
	calls   int
	busy    bool
}

func (d *trapDev) trap() {
	if d.busy {
		return
	}
	d.busy = true
	d.calls++
	saved := d.cpu.PC
	d.cpu.PC = d.service
	d.cpu.Run(bgCtx)
	d.cpu.PC = saved
	d.cpu.HALT = false
	d.busy = false
}

func (d *trapDev) Get(a uint16) uint8 { return d.mem[a] }
func (d *trapDev) Set(a uint16, v uint8) {
	if !d.onOut && a == 0x5000 {
		d.trap()
		v = d.cpu.AF.Hi
	}
	d.mem[a] = v
}
func (d *trapDev) In(p uint8) uint8 { return 0 }
func (d *trapDev) Out(p uint8, v uint8) {
	if d.onOut && p == 0x10 {
		d.trap()
	}
}

// lineDev is a port device that also implements z80.INT and z80.NMI as documented there: a request stays
// active until the matching Return method is called.
type lineDev struct {
	nmi, intr                              bool
	nCheckNMI, nCheckINT, nRetNMI, nRetINT int
}

func (d *lineDev) In(p uint8) uint8 { return 0 }
func (d *lineDev) Out(p, v uint8)   {}
func (d *lineDev) CheckNMI() bool   { d.nCheckNMI++; return d.nmi }
func (d *lineDev) ReturnNMI()       { d.nRetNMI++; d.nmi = false }
func (d *lineDev) ReturnINT()       { d.nRetINT++; d.intr = false }
func (d *lineDev) CheckINT() []uint8 {
	d.nCheckINT++
	if d.intr {
		return []uint8{0x40}
	}
	return nil
}

var _ z80.INT = (*lineDev)(nil)
var _ z80.NMI = (*lineDev)(nil)

// c12Soak (thorough tier): long life. One CPU value per loop executes a tight loop around one family of
// instructions until that family has been executed 2^31 + 2^16 times - past the point where a 32-bit signed
// counter that a tree might keep per CALL, per interrupt, per unsupported op-code, per port access ...
// overflows. Step must not panic, the stack stays balanced and control stays inside the loop. The loops run
// in parallel, one core each (about two minutes).
func c12Soak(c *Ctx) int64 {
	type loop struct {
		name  string
		code  []Poke
		steps int // Steps per iteration
		raise int // 0 none; 1 an IM1 request before every iteration; 2 an NMI before every iteration
		pcs   []uint16
	}
	loops := []loop{
		{"CALL nn / RET", []Poke{{0x0100, []uint8{0xCD, 0x00, 0x02, 0xC3, 0x00, 0x01}}, {0x0200, []uint8{0xC9}}}, 3, 0, nil},
		{"RST 08h / RET", []Poke{{0x0100, []uint8{0xCF, 0xC3, 0x00, 0x01}}, {0x0008, []uint8{0xC9}}}, 3, 0, nil},
		{"CALL NZ / RET Z (taken and untaken)", []Poke{{0x0100, []uint8{0xAF, 0xC4, 0x00, 0x02, 0xCC, 0x00, 0x02, 0xC3, 0x00, 0x01}}, {0x0200, []uint8{0xC0, 0xC8}}}, 6, 0, nil},
		{"PUSH / POP (BC, IX)", []Poke{{0x0100, []uint8{0xC5, 0xD1, 0xDD, 0xE5, 0xFD, 0xE1, 0xC3, 0x00, 0x01}}}, 5, 0, nil},
		{"JR / DJNZ", []Poke{{0x0100, []uint8{0x18, 0x00, 0x10, 0x00, 0xC3, 0x00, 0x01}}}, 3, 0, nil},
		{"LDI / CPI / INI / OUTI", []Poke{{0x0100, []uint8{0xED, 0xA0, 0xED, 0xA1, 0xED, 0xA2, 0xED, 0xA3, 0xC3, 0x00, 0x01}}}, 5, 0, nil},
		{"IN A,(n) / OUT (n),A / IN r,(C) / OUT (C),r", []Poke{{0x0100, []uint8{0xDB, 0x10, 0xD3, 0x11, 0xED, 0x40, 0xED, 0x49, 0xC3, 0x00, 0x01}}}, 5, 0, nil},
		{"unsupported op-codes ED 00 / DD 00 / DD CB d 00 variants", []Poke{{0x0100, []uint8{0xED, 0x00, 0xED, 0xFF, 0xC3, 0x00, 0x01}}}, 3, 0, nil},
		{"maskable interrupt accepted (IM 1) / EI / RETI", []Poke{{0x0100, []uint8{0xFB, 0x00, 0xC3, 0x00, 0x01}}, {0x0038, []uint8{0xED, 0x4D}}}, 5, 1, nil},
		{"NMI accepted / RETN", []Poke{{0x0100, []uint8{0x00, 0xC3, 0x00, 0x01}}, {0x0066, []uint8{0xED, 0x45}}}, 4, 2, nil},
		{"mode-0 interrupt (RST 38h supplied) / EI / RET", []Poke{{0x0100, []uint8{0xFB, 0x00, 0x00, 0xC3, 0x00, 0x01}}, {0x0038, []uint8{0xC9}}}, 6, 3, nil},
		{"HALT woken by an NMI", []Poke{{0x0100, []uint8{0x76, 0xC3, 0x00, 0x01}}, {0x0066, []uint8{0x33, 0x33, 0xC3, 0x01, 0x01}}}, 5, 4, nil},
		{"read-modify-write (HL), (IX+d), BIT/SET/RES", []Poke{{0x0100, []uint8{0x34, 0xDD, 0x35, 0x05, 0xCB, 0xC6, 0xFD, 0xCB, 0x02, 0x86, 0xC3, 0x00, 0x01}}}, 5, 0, nil},
		{"LD (nn),HL / LD HL,(nn) / EX (SP),HL / ADD HL,BC", []Poke{{0x0100, []uint8{0x22, 0x00, 0x50, 0x2A, 0x02, 0x50, 0xE3, 0x09, 0xC3, 0x00, 0x01}}}, 5, 0, nil},
	}
	const iters = int64(1)<<31 + 1<<16
	var total [16 * 8]int64
	parallel(int64(len(loops)), 1, 16, func(wi int, lo, hi int64) {
		for li := lo; li < hi; li++ {
			l := &loops[li]
			flat := &fastMem{}
			for _, pk := range l.code {
				copy(flat.b[pk.Addr:], pk.Data)
			}
			cpu := z80.CPU{Memory: flat, IO: make(z80.DumbIO, 256)}
			cpu.PC, cpu.SP, cpu.IM = 0x0100, 0x8000, 1
			cpu.HL.SetU16(0x6000)
			cpu.DE.SetU16(0x6100)
			cpu.IX, cpu.IY = 0x6200, 0x6300
			if l.raise == 3 {
				cpu.IM = 0
			}
			im1, nmi, im0 := z80.IM1Interrupt(), z80.NMIInterrupt(), z80.IM0Interrupt(0xFF)
			var pan interface{}
			var done, nsteps int64
			lost := false
			soakLive := newLiveSlot()
			func() {
				defer func() { pan = recover() }()
				defer soakLive.reset()
				for it := int64(0); it < iters; it++ {
					// pointers and counters are re-seeded so that the loop never wanders over its own code
					cpu.HL.SetU16(0x6000)
					cpu.DE.SetU16(0x6100)
					cpu.BC.SetU16(0x0310)
					switch l.raise {
					case 1:
						cpu.Interrupt, cpu.IFF1 = im1, false // the request waits for the EI of the loop
					case 2:
						cpu.Interrupt = nmi
					case 3:
						cpu.Interrupt, cpu.IFF1 = im0, false
					}
					k := 0
					soakLive.reset()
					soakLive.enter(&cpu) // one publication per iteration: the Steps of an iteration take well under a microsecond together
					if l.raise == 4 {
						cpu.Step() // HALT
						k++
						nsteps++
						cpu.Interrupt = nmi
					}
					for {
						cpu.Step()
						k++
						nsteps++
						if cpu.PC == 0x0100 && cpu.Interrupt == nil {
							break
						}
						if k >= 32 {
							lost = true
							return
						}
					}
					done++
					if it&0xFFFFF == 0 && c.TimeUp() {
						return
					}
				}
			}()
			total[wi*8] += nsteps
			switch {
			case pan != nil:
				c.Report("c12/soak:"+l.name, li, "", map[string]interface{}{"loop": l.name, "iterations_done": done}, []string{fmt.Sprintf("one CPU value running the loop %q: Step panicked in iteration %d (of 2^31+2^16): %v", l.name, done, pan)})
			case lost:
				c.Report("c12/soak:"+l.name, li, "", map[string]interface{}{"loop": l.name, "iterations_done": done}, []string{fmt.Sprintf("iteration %d of the loop %q did not come back to 0100 within 32 Steps (PC=%04X SP=%04X)", done, l.name, cpu.PC, cpu.SP)})
			case done < iters:
				c.Capped(fmt.Sprintf("time cap reached in the soak loop %q after %d iterations", l.name, done))
			case cpu.SP != 0x8000 || cpu.PC != 0x0100:
				c.Report("c12/soak:"+l.name, li, "", map[string]interface{}{"loop": l.name, "iterations_done": done}, []string{fmt.Sprintf("after %d iterations of the loop %q: PC=%04X (want 0100), SP=%04X (want 8000): the loop lost its footing", done, l.name, cpu.PC, cpu.SP)})
			}
		}
	}, nil)
	var n int64
	for i := range total {
		n += total[i]
	}
	c.Set("soak_steps", n)
	c.Set("soak_loops", len(loops))
	return n
}
