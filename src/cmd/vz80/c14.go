package main

import (
	"fmt"

	z80 "github.com/koron-go/z80"
	"github.com/koron-go/z80/internal/verif/refz80"
)

// C14: the refresh register counts opcode fetches; I and bit 7 of R change
// only by LD. ENUM: all implemented encodings x all 256 R x lattice; plus
// multi-Step sequences (block repeats, HALT) in c14Sequences.
func init() {
	register("C14", checkC14)
	replayers["c14/refresh"] = func(c *Ctx, raw []byte) []string {
		return replayStepCase(c, raw, AspR|AspI)
	}
}

func checkC14(c *Ctx) {
	c.Rule = "every implemented encoding x (lattice incl. R in {00,7E,7F,80,FE,FF}, I in {00,3F,80,FF}; all 256 R values at each of the 4 base vectors) x 256 F: R' = (R&0x80)|((R+m)&0x7F) with m = opcode fetches per refz80 (1; 2 for CB/ED/DD/FD; 2 or 3 for DDCB/FDCB), I' = I, except LD R,A / LD I,A; LD A,R / LD A,I value and flags; plus Step sequences: block instructions with 3 repetitions and HALT stepped 300 times across the 0x7F->0x00 wrap for all 256 starting R; LD A,I / LD A,R with a refused maskable request pending x IM x IFF2 x all 256 I/R values. Non-trivial: every case advances R (counted as cases whose R changed)."
	c.Bound = "lattice v1 " + c.Tier + " + all 256 R"
	runStepConformance(c, stepConfOpts{name: "c14/refresh", aspects: AspR | AspI, allR: true,
		extra: func(w *Worker, e *Enc, cs *Case, res *StepResult) []string {
			// LD A,I / LD A,R: value and flags are part of this property
			if e.Inst.Kind == refz80.KLdAI && e.Inst.Sub >= 2 {
				if res.Got.A != res.Exp.A || res.Got.F != res.Exp.F {
					return []string{fmt.Sprintf("LD A,I/R: want A=%02X F=%s got A=%02X F=%s (I=%02X R=%02X IFF2=%v)", res.Exp.A, flagStr(res.Exp.F), res.Got.A, flagStr(res.Got.F), cs.S.I, cs.S.R, cs.S.IFF2)}
				}
			}
			return nil
		}})
	c14Sequences(c)
	c14Pending(c)
	c14Acceptance(c)
	c.Assume("DDCB/FDCB: 2 or 3 opcode fetches accepted (statement)")
	c.Assume("across an accepted interrupt only bit 7 of R and the whole of I are compared (the statement fixes those unconditionally); the low seven bits may or may not count the acknowledge cycle")
}

type c14Seq struct {
	Program string `json:"program"`
	R0      uint8  `json:"r0"`
	Steps   int    `json:"steps"`
}

// c14Sequences: multi-Step programs. R must advance by the model's fetch
// count on every Step: block repeats count again, HALT counts on every Step.
func c14Sequences(c *Ctx) {
	type prog struct {
		name  string
		code  []uint8
		setup func(s *refz80.State)
		steps int
	}
	progs := []prog{
		{"HALT x300", []uint8{0x76}, nil, 300},
		{"LDIR BC=3; HALT", []uint8{0xED, 0xB0, 0x76}, func(s *refz80.State) { s.B, s.C = 0, 3; s.H, s.L = 0x40, 0; s.D, s.E = 0x50, 0 }, 6},
		{"LDDR BC=3; HALT", []uint8{0xED, 0xB8, 0x76}, func(s *refz80.State) { s.B, s.C = 0, 3; s.H, s.L = 0x40, 9; s.D, s.E = 0x50, 9 }, 6},
		{"CPIR BC=4 (no hit); HALT", []uint8{0xED, 0xB1, 0x76}, func(s *refz80.State) { s.B, s.C = 0, 4; s.H, s.L = 0x40, 0 }, 6},
		{"CPDR BC=3; HALT", []uint8{0xED, 0xB9, 0x76}, func(s *refz80.State) { s.B, s.C = 0, 3; s.H, s.L = 0x40, 9 }, 6},
		{"OTIR B=3; HALT", []uint8{0xED, 0xB3, 0x76}, func(s *refz80.State) { s.B = 3; s.H, s.L = 0x40, 0 }, 6},
		{"OTDR B=3; HALT", []uint8{0xED, 0xBB, 0x76}, func(s *refz80.State) { s.B = 3; s.H, s.L = 0x40, 9 }, 6},
		{"INIR B=3; HALT", []uint8{0xED, 0xB2, 0x76}, func(s *refz80.State) { s.B = 3; s.H, s.L = 0x40, 0 }, 6},
		{"INDR B=3; HALT", []uint8{0xED, 0xBA, 0x76}, func(s *refz80.State) { s.B = 3; s.H, s.L = 0x40, 9 }, 6},
		{"DJNZ loop B=3; LD A,R; HALT", []uint8{0x10, 0xFE, 0xED, 0x5F, 0x76}, func(s *refz80.State) { s.B = 3 }, 7},
		{"DD FD DD NOP-like invalid pairs; BIT 0,(IX+1); LD R,A; LD A,R; HALT", []uint8{0xDD, 0xCB, 0x01, 0x46, 0xED, 0x4F, 0xED, 0x5F, 0x76}, nil, 6},
	}
	w := newWorker(obsBackground(c))
	n := int64(0)
	for pi, p := range progs {
		for r0 := 0; r0 < 256; r0++ {
			base := baseVector(pi % 4)
			s := base.S
			s.PC = 0x0100
			s.SP = 0x8000
			s.R = uint8(r0)
			if p.setup != nil {
				p.setup(&s)
			}
			cs := Case{S: s, Bytes: p.code, IOX: 0x11, IOY: 0x35}
			w.setup(&cs)
			exp := s
			var d []string
			for k := 0; k < p.steps && d == nil; k++ {
				cur := Case{S: exp}
				w.imem.ClearLog()
				w.rmem.ClearLog()
				res := w.stepBothNoSetup(&cur)
				n++
				if dd := w.compare(&cur, res, AspR|AspI); dd != nil {
					d = append([]string{fmt.Sprintf("program %q, R0=%02X, Step %d at PC=%04X", p.name, r0, k, exp.PC)}, dd...)
					break
				}
				// continue from the implementation's state (policy bits may differ)
				exp = res.Got
			}
			if d != nil {
				c.Report(fmt.Sprintf("c14/seq:%s", p.name), int64(pi*256+r0), "", c14Seq{p.name, uint8(r0), p.steps}, cloneStrings(d))
				break
			}
		}
	}
	c.Evaluations += n
	c.Transitions += n
	c.Traces += n
	c.Nontrivial += n
	c.States += int64(len(progs)) * 256
	c.Sample(c14Seq{"HALT x300", 0x7E, 300})
}

// c14Pending: LD A,I / LD A,R with a *refused* maskable request pending (IFF1 clear), IFF2 both ways,
// all 256 values of I and R, the three modes: the value, S, Z, H, N, C and P/V = IFF2 must be as without
// a request, and the request must still be pending.
func c14Pending(c *Ctx) {
	w := newWorker(obsBackground(c))
	var n int64
	for _, code := range [][]uint8{{0xED, 0x57}, {0xED, 0x5F}} {
		e := buildEnc(code)
		for im := 0; im < 3; im++ {
			for _, iff2 := range []bool{false, true} {
				for v := 0; v < 256; v++ {
					for _, f := range []uint8{0x00, 0xFF, 0x01, 0xD6} {
						p := baseVector(v % 4)
						p.S.IFF1, p.S.IFF2, p.S.IM = false, iff2, im
						p.S.I, p.S.R, p.S.F = uint8(v), uint8(v*7+3), f
						var cs Case
						materialise(&p, &e, &cs)
						w.setup(&cs)
						var req *z80.Interrupt
						switch im {
						case 0:
							req = z80.IM0Interrupt(0xFF)
						case 1:
							req = z80.IM1Interrupt()
						default:
							req = z80.IM2Interrupt(0x40)
						}
						w.cpu.Interrupt = req
						res := w.stepBothNoSetup(&cs)
						n++
						var d []string
						if w.cpu.Interrupt != req {
							d = append(d, "the refused request did not stay pending")
						}
						w.cpu.Interrupt = nil
						d = append(d, w.compare(&cs, res, AspState|AspR|AspI)...)
						if len(d) > 0 {
							c.Report("c14/pending:"+e.Name, n, "", cs.toJSON(c.Salt), cloneStrings(append([]string{fmt.Sprintf("%s with a refused maskable request pending (IM %d, IFF1=0, IFF2=%v, I=%02X R=%02X)", e.Name, im, iff2, p.S.I, p.S.R)}, d...)))
							return
						}
					}
				}
			}
		}
	}
	c.Evaluations += n
	c.Transitions += n
	c.Traces += n
	c.Nontrivial += n
	c.States += n
}

// c14Acceptance: accepting a request (NMI, modes 0/1/2) for all 256 R and a few I values: bit 7 of R and
// the whole of I change only by LD R,A / LD I,A, hence not here.
func c14Acceptance(c *Ctx) {
	w := newWorker(obsBackground(c))
	var n int64
	nop := buildEnc([]uint8{0x00})
	for kind := 0; kind < 5; kind++ {
		for r := 0; r < 256; r++ {
			for _, iv := range []uint8{0x00, 0x3F, 0x80, 0xFF} {
				p := baseVector(r % 4)
				p.S.IFF1, p.S.IFF2 = true, true
				p.S.R, p.S.I = uint8(r), iv
				var req *z80.Interrupt
				switch kind {
				case 0:
					req = z80.NMIInterrupt()
				case 1:
					p.S.IM, req = 1, z80.IM1Interrupt()
				case 2:
					p.S.IM, req = 2, z80.IM2Interrupt(0x40)
				case 3:
					p.S.IM, req = 0, z80.IM0Interrupt(0xFF)
				default:
					p.S.IM, req = 0, z80.IM0Interrupt(0xCD, 0x34, 0x12)
				}
				var cs Case
				materialise(&p, &nop, &cs)
				w.setup(&cs)
				w.cpu.Interrupt = req
				pan := c02Step(&w.cpu)
				n++
				got := fromCPU(&w.cpu)
				var d []string
				if pan != nil {
					d = append(d, fmt.Sprintf("panic: %v", pan))
				}
				if w.cpu.Interrupt != nil {
					d = append(d, "request not accepted (framework expectation: IFF1 set)")
				}
				if got.R&0x80 != uint8(r)&0x80 {
					d = append(d, fmt.Sprintf("bit 7 of R changed across the acceptance: R %02X -> %02X", r, got.R))
				}
				if got.I != iv {
					d = append(d, fmt.Sprintf("I changed across the acceptance: %02X -> %02X", iv, got.I))
				}
				if len(d) > 0 {
					c.Report(fmt.Sprintf("c14/acceptance:kind%d", kind), n, "", cs.toJSON(c.Salt), cloneStrings(append([]string{fmt.Sprintf("accepting request kind %d (0 NMI, 1 IM1, 2 IM2, 3 mode-0 RST, 4 mode-0 CALL) with R=%02X I=%02X", kind, r, iv)}, d...)))
					break
				}
			}
		}
	}
	c.Evaluations += n
	c.Transitions += n
	c.Traces += n
	c.Nontrivial += n
	c.States += n
}
