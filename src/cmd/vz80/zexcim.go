package main

import (
	"crypto/sha256"
	"fmt"
	"hash/crc32"
	"math/bits"
	"os"
	"path/filepath"
	"strings"
	"sync"

	"github.com/koron-go/z80/internal/verif/refz80"
)

// Pinned digests of the pristine exerciser images (taken from the pinned
// commit; the images under /verif/data are copies of the same files).
const (
	shaZexdoc = "b3015112a99bb72273e0cacde7c7549eb9840ba996af76f7bf7992ef7d6e2f90"
	shaZexall = "fbb1bb5d46f61c33ea6841a71f2b23c49b9b62410ce6ed4e57b7d9b2e7b437e0"
	shaPrelim = "e621009eb64ae5d4852f3588697c643022b326962941bbf8e137055e7a3ce987"
)

// CimCase is one test record parsed from a zexdoc/zexall image.
type CimCase struct {
	Mask  uint8
	Base  [20]uint8
	Inc   [20]uint8
	Shift [20]uint8
	CRC   uint32
	Msg   string // padding dots and '$' stripped
	Raw   [96]uint8
}

// parseCim locates the test pointer table through the LD HL,tests operand at
// image offset 0x20 and parses every 96-byte record.
func parseCim(img []uint8) (cases []CimCase, msbt uint16, err error) {
	const org = 0x100
	if len(img) < 0x40 || img[0x1F] != 0x21 {
		return nil, 0, fmt.Errorf("image does not have LD HL,tests at offset 0x1F")
	}
	at := func(a uint16) (uint8, error) {
		i := int(a) - org
		if i < 0 || i >= len(img) {
			return 0, fmt.Errorf("address %04X outside image", a)
		}
		return img[i], nil
	}
	tab := uint16(img[0x20]) | uint16(img[0x21])<<8
	for k := 0; ; k++ {
		lo, e1 := at(tab + uint16(2*k))
		hi, e2 := at(tab + uint16(2*k) + 1)
		if e1 != nil || e2 != nil {
			return nil, 0, fmt.Errorf("pointer table runs off the image")
		}
		p := uint16(lo) | uint16(hi)<<8
		if p == 0 {
			break
		}
		var c CimCase
		for i := 0; i < 96; i++ {
			b, e := at(p + uint16(i))
			if e != nil {
				return nil, 0, e
			}
			c.Raw[i] = b
		}
		c.Mask = c.Raw[0]
		copy(c.Base[:], c.Raw[1:21])
		copy(c.Inc[:], c.Raw[21:41])
		copy(c.Shift[:], c.Raw[41:61])
		c.CRC = uint32(c.Raw[61])<<24 | uint32(c.Raw[62])<<16 | uint32(c.Raw[63])<<8 | uint32(c.Raw[64])
		msg := string(c.Raw[65:96])
		if i := strings.IndexByte(msg, '$'); i >= 0 {
			msg = msg[:i]
		}
		c.Msg = strings.TrimRight(msg, ".")
		cases = append(cases, c)
		if k > 200 {
			return nil, 0, fmt.Errorf("pointer table not terminated")
		}
	}
	// msbt: "jp start" at 0x100 is followed by the machine state area at 0x103
	return cases, 0x0103, nil
}

func sha256hex(b []byte) string { return fmt.Sprintf("%x", sha256.Sum256(b)) }

func loadPinnedImage(verif, name, want string) ([]uint8, error) {
	b, err := os.ReadFile(filepath.Join(verif, "data", name))
	if err != nil {
		return nil, err
	}
	if got := sha256hex(b); got != want {
		return nil, fmt.Errorf("/verif/data/%s has digest %s, want %s", name, got, want)
	}
	return b, nil
}

// flatBus is a plain 64 KiB memory without logging (exerciser runs).
type flatBus struct {
	mem [65536]uint8
	out []uint8
}

func (b *flatBus) Read(a uint16) uint8     { return b.mem[a] }
func (b *flatBus) Write(a uint16, v uint8) { b.mem[a] = v }
func (b *flatBus) In(p uint8) uint8        { return 0 }
func (b *flatBus) Out(p uint8, v uint8) {
	if p == 0 {
		b.out = append(b.out, v)
	}
}

func cimStatus(c *CimCase, shift, count uint64) [20]uint8 {
	code := c.Base
	for i := range code {
		if m := c.Inc[i]; m != 0 && count != 0 {
			for j := uint8(1); j != 0; j <<= 1 {
				if m&j == 0 {
					continue
				}
				if count&1 != 0 {
					code[i] ^= j
				}
				count >>= 1
			}
		}
		if m := c.Shift[i]; m != 0 && shift != 0 {
			for j := uint8(1); j != 0; j <<= 1 {
				if m&j == 0 {
					continue
				}
				if shift == 1 {
					code[i] ^= j
				}
				shift--
			}
		}
	}
	return code
}

func onesCount(v [20]uint8) int {
	n := 0
	for _, b := range v {
		n += bits.OnesCount8(b)
	}
	return n
}

var crcTab = crc32.MakeTable(crc32.IEEE)

// refCaseCRC runs one exerciser case on the reference model with the same
// state sequence the repository's Go port uses and returns the CRC.
func refCaseCRC(c *CimCase) (uint32, int64) {
	bus := &flatBus{}
	copy(bus.mem[0x0000:], []uint8{0xc3, 0x03, 0xff, 0x00, 0x00, 0xc3, 0x06, 0xfe})
	bus.mem[0xff03] = 0x76
	var model refz80.Model
	var out refz80.Outcome
	var s refz80.State
	crc := uint32(0xffffffff)
	var steps int64
	const msbt = 0x0103
	iter := func(shift, count uint64) {
		st := cimStatus(c, shift, count)
		copy(bus.mem[0x1000:], st[:4])
		bus.mem[0x1004] = 0
		s.IY = uint16(st[6]) | uint16(st[7])<<8
		s.IX = uint16(st[8]) | uint16(st[9])<<8
		s.L, s.H = st[10], st[11]
		s.E, s.D = st[12], st[13]
		s.C, s.B = st[14], st[15]
		s.F, s.A = st[16], st[17]
		s.SP = uint16(st[18]) | uint16(st[19])<<8
		s.PC = 0x1000
		copy(bus.mem[msbt:], st[4:])
		bus.mem[msbt+16] = 0x2a
		bus.mem[msbt+17] = 0x06
		if st[0] == 0x76 || ((st[0] == 0xdd || st[0] == 0xfd) && st[1] == 0x76) {
			return
		}
		for {
			model.Step(&s, bus, &out)
			steps++
			if s.PC == 0x1004 {
				break
			}
			if steps > 1<<40 {
				panic("runaway")
			}
		}
		after := [16]uint8{bus.mem[msbt], bus.mem[msbt+1], uint8(s.IY), uint8(s.IY >> 8), uint8(s.IX), uint8(s.IX >> 8),
			s.L, s.H, s.E, s.D, s.C, s.B, s.F & c.Mask, s.A, uint8(s.SP), uint8(s.SP >> 8)}
		for _, b := range after {
			crc = crcTab[uint8(crc)^b] ^ (crc >> 8)
		}
	}
	shiftMax := uint64(onesCount(c.Shift))
	countMax := uint64(1) << uint(onesCount(c.Inc))
	iter(0, 0)
	for j := uint64(1); j < countMax; j++ {
		iter(1, j)
	}
	for i := uint64(2); i < shiftMax+2; i++ {
		for j := uint64(0); j < countMax; j++ {
			iter(i, j)
		}
	}
	return crc, steps
}

// selfcheckRefCRC: refz80 must reproduce all 134 CRCs "found empirically on a
// real Z80" that zexdoc and zexall carry.
func selfcheckRefCRC(verif string) (ok bool, report string) {
	ok = true
	var total int64
	var mu sync.Mutex
	var lines []string
	for _, im := range []struct{ name, sha string }{{"zexdoc.cim", shaZexdoc}, {"zexall.cim", shaZexall}} {
		img, err := loadPinnedImage(verif, im.name, im.sha)
		if err != nil {
			return false, err.Error()
		}
		cases, _, err := parseCim(img)
		if err != nil {
			return false, im.name + ": " + err.Error()
		}
		if len(cases) != 67 {
			return false, fmt.Sprintf("%s: %d cases, want 67", im.name, len(cases))
		}
		parallel(int64(len(cases)), 1, 0, func(w int, lo, hi int64) {
			for i := lo; i < hi; i++ {
				crc, steps := refCaseCRC(&cases[i])
				mu.Lock()
				total += steps
				if crc != cases[i].CRC {
					ok = false
					lines = append(lines, fmt.Sprintf("%s %q: refz80 CRC %08x, silicon %08x", im.name, cases[i].Msg, crc, cases[i].CRC))
				}
				mu.Unlock()
			}
		}, nil)
	}
	if ok {
		return true, fmt.Sprintf("refz80 reproduces 134/134 zexdoc+zexall CRCs (%d reference Steps)", total)
	}
	return false, strings.Join(lines, "\n")
}

// refRunImage executes a CP/M .cim image on the reference model behind the
// minimal BIOS (the model executes the BIOS code itself) and returns the
// console output.
func refRunImage(img []uint8, maxSteps int64) (string, int64, bool) {
	bus := &flatBus{}
	copy(bus.mem[0x0000:], []uint8{0xc3, 0x03, 0xff, 0x00, 0x00, 0xc3, 0x06, 0xfe})
	copy(bus.mem[0xfe06:], []uint8{0x79, 0xfe, 0x02, 0x28, 0x05, 0xfe, 0x09, 0x28, 0x05, 0x76, 0x7b, 0xd3,
		0x00, 0xc9, 0x1a, 0xfe, 0x24, 0xc8, 0xd3, 0x00, 0x13, 0x18, 0xf7})
	bus.mem[0xff03] = 0x76
	copy(bus.mem[0x100:], img)
	var model refz80.Model
	var out refz80.Outcome
	s := refz80.State{PC: 0x100}
	var steps int64
	for !s.Halt && steps < maxSteps {
		model.Step(&s, bus, &out)
		steps++
	}
	return string(bus.out), steps, s.Halt && s.PC == 0xff03
}

func selfcheckRefImages(verif string, full bool) (bool, string) {
	type im struct {
		name, sha string
		want      func(string) bool
		max       int64
	}
	ims := []im{{"prelim.cim", shaPrelim, func(o string) bool { return o == "Preliminary tests complete" }, 1 << 24}}
	if full {
		zok := func(o string) bool { return strings.Count(o, "OK") == 67 && !strings.Contains(o, "ERROR") }
		ims = append(ims, im{"zexdoc.cim", shaZexdoc, zok, 1 << 36}, im{"zexall.cim", shaZexall, zok, 1 << 36})
	}
	res := make([]string, len(ims))
	oks := make([]bool, len(ims))
	var wg sync.WaitGroup
	for i := range ims {
		wg.Add(1)
		go func(i int) {
			defer wg.Done()
			img, err := loadPinnedImage(verif, ims[i].name, ims[i].sha)
			if err != nil {
				res[i] = err.Error()
				return
			}
			o, steps, halted := refRunImage(img, ims[i].max)
			oks[i] = halted && ims[i].want(o)
			res[i] = fmt.Sprintf("%s on refz80: %d Steps, halted at FF03=%v, ok=%v", ims[i].name, steps, halted, oks[i])
			if !oks[i] {
				res[i] += " output: " + o
			}
		}(i)
	}
	wg.Wait()
	ok := true
	for _, o := range oks {
		ok = ok && o
	}
	return ok, strings.Join(res, "; ")
}
