package main

import (
	"bufio"
	"encoding/json"
	"fmt"
	"os"
	"path/filepath"
	"runtime"
	"sort"
	"strings"
	"sync"
	"sync/atomic"
	"time"
)

// Ctx is the per-run context of one check: counters for the evidence file,
// violation/known-finding bookkeeping, paths.
type Ctx struct {
	ID    string
	Tier  string
	Seed  int64
	Salt  uint32
	Verif string
	Repo  string
	Level string

	mu          sync.Mutex
	cov         map[string]interface{}
	assumptions []string
	samples     []interface{}
	violations  []*Violation
	knownSeen   map[string]int
	known       []knownFinding
	deadline    time.Time
	wallOps     map[int64]wallOp
	wallSeq     int64
	capped      []string
	nViol       int64

	Evaluations int64
	States      int64
	Transitions int64
	Traces      int64
	Nontrivial  int64
	Exhaustive  bool
	Rule        string
	Bound       string
}

// Violation is one failing case, written as a replay file.
type Violation struct {
	Property string          `json:"property"`
	Check    string          `json:"check"`
	Tier     string          `json:"tier"`
	Seed     int64           `json:"seed"`
	Index    int64           `json:"index"`
	Case     json.RawMessage `json:"case"`
	Diff     []string        `json:"diff"`
	Sig      string          `json:"signature,omitempty"`
}

type knownFinding struct {
	Property string
	Key      string
	Text     string
}

// currentCtx is the context of the running check (for panic reporting from workers).
var currentCtx *Ctx

func newCtx(id, tier string) *Ctx {
	c := &Ctx{ID: id, Tier: tier, Seed: envInt("VERIF_SEED", 0), Level: "model_checking"}
	c.Salt = uint32(c.Seed)*2654435761 + 12345
	c.Verif = os.Getenv("VERIF")
	if c.Verif == "" {
		c.Verif = "/verif"
	}
	c.Repo = os.Getenv("VERIF_REPO")
	if c.Repo == "" {
		c.Repo = "/repo"
	}
	c.cov = map[string]interface{}{}
	c.knownSeen = map[string]int{}
	c.loadKnown()
	capS := envInt("VERIF_CAP_S", 0)
	if capS == 0 {
		if tier == "quick" {
			capS = 240
		} else {
			capS = 3000
		}
	}
	c.deadline = startTime.Add(time.Duration(capS) * time.Second)
	currentCtx = c
	live.mu.Lock()
	live.ctx = c
	live.mu.Unlock()
	startLiveness()
	return c
}

// Quick reports whether this is the quick tier.
func (c *Ctx) Quick() bool { return c.Tier != "thorough" }

// TimeUp reports whether the internal time cap has been reached; the caller
// stops enumerating, records what was covered, and the run still exits 0.
func (c *Ctx) TimeUp() bool { return time.Now().After(c.deadline) }

// Capped records that a cap was hit (exhaustive becomes false).
func (c *Ctx) Capped(what string) {
	c.mu.Lock()
	c.capped = append(c.capped, what)
	c.mu.Unlock()
}

func (c *Ctx) loadKnown() {
	f, err := os.Open(filepath.Join(c.Verif, "KNOWN_FINDINGS.txt"))
	if err != nil {
		return
	}
	defer f.Close()
	sc := bufio.NewScanner(f)
	for sc.Scan() {
		line := strings.TrimSpace(sc.Text())
		if !strings.HasPrefix(line, "finding:") {
			continue // "fixed:" lines and comments suppress nothing
		}
		var kf knownFinding
		rest := strings.Fields(strings.TrimPrefix(line, "finding:"))
		var text []string
		for _, w := range rest {
			switch {
			case strings.HasPrefix(w, "property=") && kf.Property == "":
				kf.Property = strings.TrimPrefix(w, "property=")
			case strings.HasPrefix(w, "key=") && kf.Key == "":
				kf.Key = strings.TrimPrefix(w, "key=")
			default:
				text = append(text, w)
			}
		}
		kf.Text = strings.Join(text, " ")
		if kf.Property != "" && kf.Key != "" {
			c.known = append(c.known, kf)
		}
	}
}

// Set stores an extra coverage key.
func (c *Ctx) Set(k string, v interface{}) {
	c.mu.Lock()
	c.cov[k] = v
	c.mu.Unlock()
}

// Assume records an assumption for the evidence file.
func (c *Ctx) Assume(s string) {
	c.mu.Lock()
	c.assumptions = append(c.assumptions, s)
	c.mu.Unlock()
}

// Sample records one concrete explored case (at most 6 are kept).
func (c *Ctx) Sample(v interface{}) {
	c.mu.Lock()
	if len(c.samples) < 6 {
		c.samples = append(c.samples, v)
	}
	c.mu.Unlock()
}

// NViolations is the number of unlisted violations so far.
func (c *Ctx) NViolations() int { return int(atomic.LoadInt64(&c.nViol)) }

// Report files a failing case. sig is the signature of the failing shape; if
// KNOWN_FINDINGS.txt lists (property, sig) the case is a known finding and
// does not affect the exit status.
func (c *Ctx) Report(check string, index int64, sig string, cas interface{}, diff []string) {
	c.mu.Lock()
	defer c.mu.Unlock()
	if sig != "" {
		for _, k := range c.known {
			if k.Property == c.ID && k.Key == sig {
				c.knownSeen[sig]++
				return
			}
		}
	}
	atomic.AddInt64(&c.nViol, 1)
	raw, _ := json.Marshal(cas)
	v := &Violation{Property: c.ID, Check: check, Tier: c.Tier, Seed: c.Seed, Index: index, Case: raw, Diff: diff, Sig: sig}
	// keep the lowest index per check key (simplest-first)
	for i, o := range c.violations {
		if o.Check == check {
			if index < o.Index {
				c.violations[i] = v
			}
			return
		}
	}
	if len(c.violations) < 4096 {
		c.violations = append(c.violations, v)
	}
}

func (c *Ctx) finish() int {
	wall := time.Since(startTime).Seconds()
	if pk := atomic.LoadUint64(&heapPeak); pk > 0 {
		c.Set("peak_heap_mb_seen_by_liveness_monitor", pk>>20)
	}
	exit := 0
	sort.Slice(c.violations, func(i, j int) bool { return c.violations[i].Check < c.violations[j].Check })
	for _, k := range c.known {
		if k.Property == c.ID && c.knownSeen[k.Key] > 0 {
			fmt.Printf("KNOWN-FINDING: property=%s key=%s %s (seen in %d cases this run)\n", c.ID, k.Key, k.Text, c.knownSeen[k.Key])
		}
	}
	replayDir := filepath.Join(c.Verif, "replays")
	evDir := filepath.Join(c.Verif, "evidence")
	if d := os.Getenv("VERIF_EVIDENCE_DIR"); d != "" {
		// runs against scratch copies (mutant self-test) must not overwrite the evidence of /repo
		evDir = d
		replayDir = filepath.Join(d, "replays")
	}
	os.MkdirAll(replayDir, 0o755)
	if len(c.violations) > 8 {
		fmt.Printf("%d distinct failing check keys; the first 8 (sorted) are written as replay files\n", len(c.violations))
		for _, v := range c.violations[8:] {
			fmt.Printf("  also failing: %s\n", v.Check)
		}
		c.violations = c.violations[:8]
	}
	for i, v := range c.violations {
		path := filepath.Join(replayDir, fmt.Sprintf("%s-%s-%d.json", c.ID, c.Tier, i+1))
		b, _ := json.MarshalIndent(v, "", " ")
		if err := os.WriteFile(path, b, 0o644); err != nil {
			fmt.Fprintf(os.Stderr, "cannot write replay: %v\n", err)
		}
		for _, d := range v.Diff {
			fmt.Printf("  [%s] %s\n", v.Check, d)
		}
		fmt.Printf("VIOLATION property=%s replay=%s\n", c.ID, path)
		exit = 1
	}
	cov := c.cov
	cov["evaluations"] = c.Evaluations
	cov["distinct_nontrivial"] = c.Nontrivial
	cov["rule"] = c.Rule
	cov["states"] = c.States
	cov["transitions"] = c.Transitions
	cov["traces_validated_against_impl"] = c.Traces
	cov["exhaustive"] = c.Exhaustive && len(c.capped) == 0
	cov["bound"] = c.Bound
	cov["caps_hit"] = append([]string{}, c.capped...)
	if len(c.samples) == 0 {
		c.samples = append(c.samples, "no sample recorded")
	}
	cov["samples"] = c.samples
	ks := []string{}
	for k, n := range c.knownSeen {
		ks = append(ks, fmt.Sprintf("%s x%d", k, n))
	}
	sort.Strings(ks)
	cov["known_findings_seen"] = ks
	cov["workers"] = runtime.NumCPU()
	if a := os.Getenv("VERIF_AUX_RESULT"); a != "" {
		cov["auxiliary_race_pass"] = a
	}
	ev := map[string]interface{}{
		"property_id": c.ID,
		"tier":        c.Tier,
		"seed":        c.Seed,
		"level":       c.Level,
		"coverage":    cov,
		"assumptions": append([]string{}, c.assumptions...),
		"wall_s":      float64(int(wall*1000)) / 1000,
		"violations":  int(c.nViol),
	}
	os.MkdirAll(evDir, 0o755)
	b, _ := json.MarshalIndent(ev, "", " ")
	tmp := filepath.Join(evDir, c.ID+".json.tmp")
	if err := os.WriteFile(tmp, append(b, '\n'), 0o644); err == nil {
		os.Rename(tmp, filepath.Join(evDir, c.ID+".json"))
	} else {
		fmt.Fprintf(os.Stderr, "cannot write evidence: %v\n", err)
	}
	fmt.Printf("%s %s: evaluations=%d states=%d transitions=%d nontrivial=%d exhaustive=%v violations=%d wall=%.1fs\n",
		c.ID, c.Tier, c.Evaluations, c.States, c.Transitions, c.Nontrivial, cov["exhaustive"], c.nViol, wall)
	return exit
}

// parallel runs f(worker, i) for i in [0,n) on all cores, in contiguous
// chunks handed out dynamically. f must be safe for concurrent use with
// per-worker state indexed by worker. It stops early once stop() is true.
func parallel(n int64, chunk int64, nworkers int, f func(worker int, lo, hi int64), stop func() bool) {
	if nworkers <= 0 {
		nworkers = runtime.NumCPU()
	}
	var next int64
	var wg sync.WaitGroup
	for w := 0; w < nworkers; w++ {
		wg.Add(1)
		go func(w int) {
			defer wg.Done()
			defer func() {
				// A panic that escapes a worker comes from the code under check on an input the
				// harness did not guard (the unchanged tree never panics here): report it, do not crash.
				if r := recover(); r != nil && currentCtx != nil {
					buf := make([]byte, 6000)
					n := runtime.Stack(buf, false)
					currentCtx.Report("panic-in-worker", 0, "", map[string]string{"panic": fmt.Sprint(r)}, []string{fmt.Sprintf("panic while exploring: %v", r), string(buf[:n])})
				}
			}()
			for {
				lo := atomic.AddInt64(&next, chunk) - chunk
				if lo >= n {
					return
				}
				if stop != nil && stop() {
					return
				}
				hi := lo + chunk
				if hi > n {
					hi = n
				}
				f(w, lo, hi)
			}
		}(w)
	}
	wg.Wait()
}

func replayFile(path string) int {
	raw, err := os.ReadFile(path)
	if err != nil {
		fmt.Fprintln(os.Stderr, err)
		return 2
	}
	var v Violation
	if err := json.Unmarshal(raw, &v); err != nil {
		fmt.Fprintln(os.Stderr, err)
		return 2
	}
	key := v.Check
	if i := strings.Index(key, ":"); i >= 0 {
		key = key[:i]
	}
	r, ok := replayers[key]
	if !ok {
		fmt.Fprintf(os.Stderr, "no replayer for check %q\n", v.Check)
		return 2
	}
	c := newCtx(v.Property, v.Tier)
	c.Seed = v.Seed
	c.Salt = uint32(c.Seed)*2654435761 + 12345
	if d := r(c, v.Case); len(d) > 0 {
		fmt.Printf("replay %s: reproduces\n", path)
		for _, x := range d {
			fmt.Printf("  %s\n", x)
		}
		return 1
	}
	fmt.Printf("replay %s: no longer reproduces\n", path)
	return 0
}

// WatchWall arms a wall-clock backstop around an operation that runs code under check WITHOUT the
// deterministic access-count watchdog (the real memory types passed to the CPU unwrapped, so that
// type-dependent fast paths are reached). The limit is two minutes for operations that take
// nanoseconds; if it is exceeded the operation is reported as not returning and the check ends.
func (c *Ctx) WatchWall(desc func() string) (done func()) {
	c.mu.Lock()
	c.wallSeq++
	id := c.wallSeq
	if c.wallOps == nil {
		c.wallOps = map[int64]wallOp{}
		go c.wallMonitor()
	}
	c.wallOps[id] = wallOp{desc: desc, start: time.Now()}
	c.mu.Unlock()
	return func() {
		c.mu.Lock()
		delete(c.wallOps, id)
		c.mu.Unlock()
	}
}

type wallOp struct {
	desc  func() string
	start time.Time
	looks int
}

func (c *Ctx) wallMonitor() {
	for {
		time.Sleep(2 * time.Second)
		c.mu.Lock()
		var stuck *wallOp
		for id, op := range c.wallOps {
			// counted in looks of this monitor, not in elapsed time (a suspended process makes the clock jump)
			op.looks++
			c.wallOps[id] = op
			if op.looks > 60 {
				o := op
				stuck = &o
			}
		}
		c.mu.Unlock()
		if stuck != nil {
			what := stuck.desc()
			c.Report("no-return", 0, "", map[string]string{"operation": what}, []string{"did not return within two minutes (takes nanoseconds on the unchanged tree): " + what})
			os.Exit(c.finish())
		}
	}
}
