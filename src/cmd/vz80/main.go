// Command vz80 is the single driver of all checks. It is compiled as part of
// module github.com/koron-go/z80 (mounted through go build -overlay, see
// bin/env.sh), so it sees the repository's current working tree.
//
//	vz80 check <ID> [--tier quick|thorough]
//	vz80 replay <file>
//	vz80 implemented            (print the measured implemented set)
//	vz80 selfcheck [name]
package main

import (
	"fmt"
	"os"
	"runtime"
	"runtime/pprof"
	"sort"
	"strconv"
	"strings"
	"time"
)

type checkFunc func(c *Ctx)

var registry = map[string]checkFunc{}

// replayers re-execute one stored case (keyed by the check name up to ':')
// without any explorer and return the diff (empty = no longer reproduces).
var replayers = map[string]func(c *Ctx, raw []byte) []string{}

func register(id string, f checkFunc) { registry[id] = f }

func main() {
	if len(os.Args) < 2 {
		usage()
	}
	switch os.Args[1] {
	case "check":
		if len(os.Args) < 3 {
			usage()
		}
		id := os.Args[2]
		tier := os.Getenv("VERIF_TIER")
		for i := 3; i < len(os.Args); i++ {
			if os.Args[i] == "--tier" && i+1 < len(os.Args) {
				tier = os.Args[i+1]
				i++
			} else if os.Args[i] == "quick" || os.Args[i] == "thorough" {
				tier = os.Args[i]
			}
		}
		if tier != "thorough" {
			tier = "quick"
		}
		f, ok := registry[id]
		if !ok {
			fmt.Fprintf(os.Stderr, "unknown check %q; known: %s\n", id, knownIDs())
			os.Exit(2)
		}
		c := newCtx(id, tier)
		if pf := os.Getenv("VERIF_PROF"); pf != "" {
			fh, _ := os.Create(pf)
			pprof.StartCPUProfile(fh)
			f(c)
			pprof.StopCPUProfile()
			fh.Close()
		} else {
			runGuarded(c, f)
		}
		os.Exit(c.finish())
	case "replay":
		if len(os.Args) < 3 {
			usage()
		}
		os.Exit(replayFile(os.Args[2]))
	case "implementedchild":
		os.Exit(implementedChild())
	case "implemented":
		for _, e := range measureImplemented() {
			fmt.Println(e)
		}
	case "selfcheck":
		name := ""
		if len(os.Args) > 2 {
			name = os.Args[2]
		}
		os.Exit(selfcheck(name))
	case "machinechild":
		os.Exit(machineChild())
	case "recoverchild":
		os.Exit(recoverChild())
	case "envchild":
		os.Exit(envChild(os.Args[2:]))
	case "firstuse":
		os.Exit(firstUseChild(os.Args[2:]))
	case "auxrace":
		if len(os.Args) < 3 {
			usage()
		}
		os.Exit(auxRace(os.Args[2]))
	case "rewrite":
		if len(os.Args) < 4 {
			usage()
		}
		os.Exit(rewriteMain(os.Args[2], os.Args[3]))
	default:
		usage()
	}
}

func knownIDs() string {
	var ids []string
	for k := range registry {
		ids = append(ids, k)
	}
	sort.Strings(ids)
	return strings.Join(ids, " ")
}

func usage() {
	fmt.Fprintf(os.Stderr, "usage: vz80 check <ID> [--tier quick|thorough] | replay <file> | implemented | selfcheck [name] | rewrite <srcdir> <outdir>\n")
	os.Exit(2)
}

func envInt(name string, def int64) int64 {
	if v := os.Getenv(name); v != "" {
		if n, err := strconv.ParseInt(v, 10, 64); err == nil {
			return n
		}
	}
	return def
}

var startTime = time.Now()

// runGuarded runs a check; a panic escaping it is reported as a violation (see parallel).
func runGuarded(c *Ctx, f checkFunc) {
	defer func() {
		if r := recover(); r != nil {
			buf := make([]byte, 6000)
			n := runtime.Stack(buf, false)
			c.Report("panic-in-check", 0, "", map[string]string{"panic": fmt.Sprint(r)}, []string{fmt.Sprintf("panic while exploring: %v", r), string(buf[:n])})
		}
	}()
	f(c)
}
