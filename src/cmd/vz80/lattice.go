package main

import (
	"github.com/koron-go/z80/internal/verif/refz80"
)

// The register lattice of DESIGN §4.1: all-distinct base vectors, each
// dimension varied one at a time over a boundary set, listed interacting
// pairs, and (thorough) all pairs of values of the pointer dimensions.

// Proto is a case under construction.
type Proto struct {
	S    refz80.State
	D, N uint8
	NN   uint16
	IOX  uint8
	IOY  uint8
	// IOFixed: the device answers IOX on every port (used to sweep all 256 answers)
	IOFixed bool
	Data    int // data pattern poked at the pointer targets (0 = background)
	// Env: environment of the Step. 0 normal; 1 a maskable request is pending and refused (IFF1 forced
	// clear); 2 no IO device attached (CPU.IO == nil); 3 no RETN/RETI handlers registered
	Env int
}

// Mod modifies a Proto. Mods of pairs apply the PC dimension first so that
// PC-relative values resolve against the final PC.
type Mod func(p *Proto)

type dim struct {
	name string
	vals []dimVal
	set  func(p *Proto, v uint16)
	ptr  bool // pointer dimension (participates in thorough all-pairs)
}

type dimVal struct {
	v   uint16
	rel bool // value is PC + int16(v)
}

func abs(vs ...uint16) []dimVal {
	out := make([]dimVal, len(vs))
	for i, v := range vs {
		out[i] = dimVal{v: v}
	}
	return out
}

func rel(lo, hi int) []dimVal {
	var out []dimVal
	for k := lo; k <= hi; k++ {
		out = append(out, dimVal{v: uint16(int16(k)), rel: true})
	}
	return out
}

var w16 = []uint16{0x0000, 0x0001, 0x00FF, 0x0100, 0x7FFF, 0x8000, 0xFF00, 0xFFFE, 0xFFFF}

func (d *dim) apply(p *Proto, i int) {
	v := d.vals[i]
	x := v.v
	if v.rel {
		x = p.S.PC + v.v
	}
	d.set(p, x)
}

func set16(hi, lo *uint8, v uint16) { *hi, *lo = uint8(v>>8), uint8(v) }

func latticeDims() []*dim {
	ptrVals := func() []dimVal { return append(abs(w16...), rel(-2, 5)...) }
	ds := []*dim{
		{name: "PC", ptr: true, vals: abs(0x0000, 0x8000, 0xFFFC, 0xFFFD, 0xFFFE, 0xFFFF), set: func(p *Proto, v uint16) { p.S.PC = v }},
		{name: "BC", ptr: true, vals: ptrVals(), set: func(p *Proto, v uint16) { set16(&p.S.B, &p.S.C, v) }},
		{name: "DE", ptr: true, vals: ptrVals(), set: func(p *Proto, v uint16) { set16(&p.S.D, &p.S.E, v) }},
		{name: "HL", ptr: true, vals: ptrVals(), set: func(p *Proto, v uint16) { set16(&p.S.H, &p.S.L, v) }},
		{name: "SP", ptr: true, vals: ptrVals(), set: func(p *Proto, v uint16) { p.S.SP = v }},
		{name: "IX", ptr: true, vals: append(ptrVals(), abs(0x007F, 0x0080, 0xFF80, 0xFF7F)...), set: func(p *Proto, v uint16) { p.S.IX = v }},
		{name: "IY", ptr: true, vals: append(ptrVals(), abs(0x007F, 0x0080, 0xFF80, 0xFF7F)...), set: func(p *Proto, v uint16) { p.S.IY = v }},
		{name: "NN", ptr: true, vals: ptrVals(), set: func(p *Proto, v uint16) { p.NN = v }},
		{name: "D", ptr: true, vals: abs(0x00, 0x01, 0x02, 0x7F, 0x80, 0xFE, 0xFF), set: func(p *Proto, v uint16) { p.D = uint8(v) }},
		{name: "A", vals: abs(0x00, 0x01, 0x0F, 0x10, 0x7F, 0x80, 0xFF, 0x99, 0x9A), set: func(p *Proto, v uint16) { p.S.A = uint8(v) }},
		{name: "B", vals: abs(0x00, 0x01, 0x02, 0xFF), set: func(p *Proto, v uint16) { p.S.B = uint8(v) }},
		{name: "C", vals: abs(0x00, 0xFF), set: func(p *Proto, v uint16) { p.S.C = uint8(v) }},
		{name: "N", vals: abs(0x00, 0x01, 0x0F, 0x10, 0x7F, 0x80, 0xFF), set: func(p *Proto, v uint16) { p.N = uint8(v) }},
		{name: "IFF", vals: abs(0, 1, 2, 3), set: func(p *Proto, v uint16) { p.S.IFF1, p.S.IFF2 = v&1 != 0, v&2 != 0 }},
		{name: "IM", vals: abs(0, 1, 2), set: func(p *Proto, v uint16) { p.S.IM = int(v) }},
		{name: "I", vals: abs(0x00, 0x3F, 0x80, 0xFF), set: func(p *Proto, v uint16) { p.S.I = uint8(v) }},
		{name: "R", vals: abs(0x00, 0x7E, 0x7F, 0x80, 0xFE, 0xFF), set: func(p *Proto, v uint16) { p.S.R = uint8(v) }},
		{name: "HALT", vals: abs(1), set: func(p *Proto, v uint16) { p.S.Halt = v != 0 }},
		{name: "IOX", vals: abs(0x00, 0xFF, 0x80, 0x5A), set: func(p *Proto, v uint16) { p.IOX = uint8(v) }},
		{name: "DATA", vals: abs(1, 2, 3, 4), set: func(p *Proto, v uint16) { p.Data = int(v) }},
		{name: "ENV", vals: abs(1, 2, 3), set: func(p *Proto, v uint16) {
			p.Env = int(v)
			if v == 1 {
				p.S.IFF1 = false
			}
		}},
	}
	return ds
}

// aliasMods are the listed interacting pairs that are not products of two
// value sets: register aliasing.
func aliasMods() []Mod {
	hl := func(p *Proto) uint16 { return uint16(p.S.H)<<8 | uint16(p.S.L) }
	return []Mod{
		func(p *Proto) { p.S.D, p.S.E = p.S.H, p.S.L },                // DE = HL
		func(p *Proto) { p.S.B, p.S.C = p.S.H, p.S.L },                // BC = HL
		func(p *Proto) { p.S.B, p.S.C = p.S.D, p.S.E },                // BC = DE
		func(p *Proto) { p.S.SP = hl(p) },                             // SP = HL
		func(p *Proto) { p.S.SP = hl(p) + 1 },                         // SP = HL+1
		func(p *Proto) { p.S.IY = p.S.IX },                            // IY = IX
		func(p *Proto) { p.S.IX = hl(p) },                             // IX = HL
		func(p *Proto) { p.S.IY = hl(p) },                             // IY = HL
		func(p *Proto) { p.S.SP = p.S.IX },                            // SP = IX
		func(p *Proto) { p.S.SP = p.S.IY },                            // SP = IY
		func(p *Proto) { p.NN = hl(p) },                               // nn = HL
		func(p *Proto) { p.NN = p.S.SP },                              // nn = SP
		func(p *Proto) { p.NN = p.S.SP - 1 },                          // nn+1 = SP
		func(p *Proto) { v := hl(p) + 1; set16(&p.S.D, &p.S.E, v) },   // DE = HL+1
		func(p *Proto) { v := hl(p) - 1; set16(&p.S.D, &p.S.E, v) },   // DE = HL-1
		func(p *Proto) { p.S.IX = p.S.PC - uint16(int16(int8(p.D))) }, // IX+d = PC
		func(p *Proto) { p.S.IY = p.S.PC - uint16(int16(int8(p.D))) + 1 },
	}
}

// Lattice is the list of mods for a tier.
type Lattice struct {
	Bases  []Proto
	Mods   []Mod
	AllD   bool // additionally all 256 displacements at each base
	NPairs int
}

func newLattice(salt uint32, thorough bool) *Lattice {
	l := &Lattice{AllD: true}
	for k := 0; k < 4; k++ {
		l.Bases = append(l.Bases, baseVector(k))
	}
	dims := latticeDims()
	l.Mods = append(l.Mods, func(p *Proto) {}) // the base itself
	for _, d := range dims {
		d := d
		for i := range d.vals {
			i := i
			l.Mods = append(l.Mods, func(p *Proto) { d.apply(p, i) })
		}
	}
	l.Mods = append(l.Mods, aliasMods()...)
	// listed pairs: index register x displacement crossing 0x0000/0xFFFF
	ixv := []uint16{0x0000, 0x0001, 0x007F, 0x0080, 0xFF7F, 0xFF80, 0xFFFF}
	dv := []uint8{0x00, 0x01, 0x7F, 0x80, 0x81, 0xFF}
	for _, x := range ixv {
		for _, d := range dv {
			x, d := x, d
			l.Mods = append(l.Mods, func(p *Proto) { p.S.IX, p.S.IY, p.D = x, x^0x0100, d })
			l.Mods = append(l.Mods, func(p *Proto) { p.S.IY, p.S.IX, p.D = x, x^0x0100, d })
		}
	}
	// listed pairs: PC at the wrap x relative offset / pointers relative to PC
	pcd := dims[0]
	for i := range pcd.vals {
		i := i
		for _, d := range dv {
			d := d
			l.Mods = append(l.Mods, func(p *Proto) { pcd.apply(p, i); p.D = d })
		}
		for _, dd := range dims[1:8] {
			dd := dd
			for j, v := range dd.vals {
				if !v.rel {
					continue
				}
				j := j
				l.Mods = append(l.Mods, func(p *Proto) { pcd.apply(p, i); dd.apply(p, j) })
			}
		}
	}
	if thorough {
		// all pairs of values of the pointer dimensions
		var ptr []*dim
		for _, d := range dims {
			if d.ptr {
				ptr = append(ptr, d)
			}
		}
		for a := 0; a < len(ptr); a++ {
			for b := a + 1; b < len(ptr); b++ {
				da, db := ptr[a], ptr[b]
				for i := range da.vals {
					for j := range db.vals {
						i, j := i, j
						l.Mods = append(l.Mods, func(p *Proto) { da.apply(p, i); db.apply(p, j) })
						l.NPairs++
					}
				}
			}
		}
	}
	return l
}

// baseVector returns the k-th all-distinct base state: all 26 register bytes
// pairwise different and different from each other's complements.
func baseVector(k int) Proto {
	// deterministic selection of bytes
	used := map[uint8]bool{0x00: true, 0xFF: true}
	x := uint32(0x1234567 + 7919*k)
	next := func() uint8 {
		for {
			x = x*1664525 + 1013904223
			b := uint8(x >> 16)
			if used[b] || used[^b] {
				continue
			}
			used[b] = true
			return b
		}
	}
	var p Proto
	s := &p.S
	for _, r := range []*uint8{&s.A, &s.F, &s.B, &s.C, &s.D, &s.E, &s.H, &s.L, &s.A2, &s.F2, &s.B2, &s.C2, &s.D2, &s.E2, &s.H2, &s.L2, &s.I, &s.R} {
		*r = next()
	}
	w := func() uint16 { return uint16(next())<<8 | uint16(next()) }
	s.IX, s.IY, s.SP = w(), w(), w()
	s.PC = []uint16{0x0100, 0x4321, 0xC0DE, 0x0066}[k%4]
	p.NN = w()
	p.D = []uint8{0x05, 0xFB, 0x7E, 0x83}[k%4]
	p.N = next()
	p.IOX = next()
	p.IOY = 0x35
	s.IFF1 = k&1 != 0
	s.IFF2 = k&2 != 0
	s.IM = k % 3
	return p
}

var dataPatterns = [][]uint8{nil, {0x00, 0x00}, {0xFF, 0xFF}, {0x80, 0x7F}, {0x0F, 0xF0}}

// materialise turns a Proto into a Case for encoding e.
func materialise(p *Proto, e *Enc, cs *Case) {
	cs.S = p.S
	cs.IOX, cs.IOY, cs.IOFixed = p.IOX, p.IOY, p.IOFixed
	cs.Env = p.Env
	cs.Bytes = append(cs.Bytes[:0], e.Fixed...)
	if e.DPos >= 0 {
		cs.Bytes[e.DPos] = p.D
	}
	if e.NPos >= 0 {
		cs.Bytes[e.NPos] = p.N
	}
	if e.NNPos >= 0 {
		cs.Bytes[e.NNPos] = uint8(p.NN)
		cs.Bytes[e.NNPos+1] = uint8(p.NN >> 8)
	}
	cs.Pokes = cs.Pokes[:0]
	if p.Data != 0 {
		pat := dataPatterns[p.Data]
		s := &p.S
		d := uint16(int16(int8(p.D)))
		for _, a := range []uint16{uint16(s.H)<<8 | uint16(s.L), uint16(s.B)<<8 | uint16(s.C), uint16(s.D)<<8 | uint16(s.E), s.SP, s.IX + d, s.IY + d, p.NN} {
			cs.Pokes = append(cs.Pokes, Poke{a, pat})
		}
	}
}

// protoKey is a comparable digest of a Proto (everything but F) used to skip
// lattice points that coincide for an encoding.
type protoKey struct {
	s    refz80.State
	d, n uint8
	nn   uint16
	iox  uint8
	iof  bool
	data int
	env  int
}

func keyOf(p *Proto, e *Enc) protoKey {
	k := protoKey{s: p.S, iox: p.IOX, iof: p.IOFixed, data: p.Data, env: p.Env}
	k.s.F = 0
	if e.DPos >= 0 {
		k.d = p.D
	}
	if e.NPos >= 0 {
		k.n = p.N
	}
	if e.NNPos >= 0 {
		k.nn = p.NN
	}
	return k
}

// forEachProto enumerates the distinct lattice points for encoding e.
func (l *Lattice) forEachProto(e *Enc, seen map[protoKey]struct{}, fn func(idx int, p *Proto)) {
	for k := range seen {
		delete(seen, k)
	}
	idx := 0
	for b := range l.Bases {
		for _, m := range l.Mods {
			p := l.Bases[b]
			m(&p)
			idx++
			k := keyOf(&p, e)
			if _, dup := seen[k]; dup {
				continue
			}
			seen[k] = struct{}{}
			fn(idx, &p)
		}
		if b == 0 && readsPort(e) {
			// device answers: all 256 byte values (the answer does not depend on the port here;
			// the port-dependent answers of the other lattice points expose a wrong port)
			for v := 0; v < 256; v++ {
				p := l.Bases[b]
				p.IOX, p.IOFixed = uint8(v), true
				idx++
				k := keyOf(&p, e)
				if _, dup := seen[k]; dup {
					continue
				}
				seen[k] = struct{}{}
				fn(idx, &p)
			}
		}
		if l.AllD && e.DPos >= 0 {
			for d := 0; d < 256; d++ {
				p := l.Bases[b]
				p.D = uint8(d)
				idx++
				k := keyOf(&p, e)
				if _, dup := seen[k]; dup {
					continue
				}
				seen[k] = struct{}{}
				fn(idx, &p)
			}
		}
	}
}

func readsPort(e *Enc) bool {
	switch e.Inst.Kind {
	case refz80.KInC, refz80.KInAn, refz80.KBlkIn:
		return true
	}
	return false
}
