package main

import (
	"context"
	"fmt"
	"io"
	"log"
	"os"
	"runtime"
	"sync"
	"sync/atomic"
	"time"

	z80 "github.com/koron-go/z80"
	"github.com/koron-go/z80/internal/verif/obs"
)

// `vz80 auxrace <C10|C13>`: the auxiliary free-running pass, meant to be
// built with -race. It is *sampling*, labelled as such in the evidence, and
// exists because a cooperative scheduler's hand-offs are happens-before
// edges that blind the race detector, and because the happens-before tracker
// only sees instrumented variables. Exit status 0; the race detector itself
// exits 66 when it has reported a race (GORACE exitcode).
func auxRace(id string) int {
	switch id {
	case "C10":
		return auxRaceC10()
	case "C13":
		return auxRaceC13()
	}
	fmt.Fprintln(os.Stderr, "auxrace: unknown id", id)
	return 2
}

// auxRaceC10: 2..16 goroutines, each stepping its own CPU on its own memory
// through every decode path and a few structured programs.
// appLog is an application's log destination that is not safe for concurrent use (a plain buffer). The
// standard logger serialises the writes of all its users; a package that logs some other way breaks that.
type appLog struct {
	n   int
	buf []byte
}

func (a *appLog) Write(p []byte) (int, error) {
	a.n++
	if len(a.buf) < 4096 {
		a.buf = append(a.buf, p...)
	}
	return len(p), nil
}

func auxRaceC10() int {
	log.SetOutput(&appLog{})
	defer log.SetOutput(io.Discard)
	paths := decodePaths()
	bg := obs.NewBackground(1)
	for _, g := range []int{2, 4, 16} {
		var wg sync.WaitGroup
		for t := 0; t < g; t++ {
			wg.Add(1)
			go func(t int) {
				defer wg.Done()
				mem := obs.NewMem(bg)
				io := &obs.IO{X: uint8(t), Y: 3}
				cpu := z80.CPU{Memory: mem, IO: io}
				if t%4 == 3 {
					cpu.IO = nil // some CPUs run without an IO device
				}
				for rep := 0; rep < 2; rep++ {
					for _, p := range paths {
						mem.Reset()
						mem.Poke(0x0100, p...)
						b := baseVector((t + rep) % 4)
						b.S.PC = 0x0100
						toCPU(&b.S, &cpu)
						func() {
							defer func() { recover() }()
							cpu.Step()
							cpu.Step()
						}()
					}
				}
				// interrupts and Run
				for k := 0; k < 50; k++ {
					mem.Reset()
					mem.Poke(0x0100, 0xFB, 0x00, 0x76)
					mem.Poke(0x0038, 0xFB, 0xED, 0x4D)
					mem.Poke(0x0066, 0xED, 0x45)
					c2 := z80.CPU{Memory: mem, IO: io}
					c2.PC, c2.SP, c2.IM = 0x0100, 0xF000, 1
					c2.Interrupt = z80.IM1Interrupt()
					c2.Run(context.Background())
					c2.Interrupt = z80.NMIInterrupt()
					c2.Run(context.Background())
					// requests that are dropped or refused: without data in mode 0 / mode 2, unknown type, out-of-range
					// IM, refused by IFF1 - at program counters that differ from CPU to CPU and from round to round
					for q := 0; q < 6; q++ {
						c4 := z80.CPU{Memory: mem, IO: io}
						c4.PC, c4.SP, c4.IFF1 = uint16(0x0100+(t*50+k)%97), 0xF000, q != 5
						c4.IM = []int{0, 2, 0, 2, 7, 1}[q]
						switch q {
						case 0, 1:
							c4.Interrupt = z80.IM1Interrupt()
						case 2, 3:
							c4.Interrupt = &z80.Interrupt{Type: z80.IMType, Data: []uint8{}}
						case 4:
							c4.Interrupt = z80.IM2Interrupt(0x40)
						case 5:
							c4.Interrupt = &z80.Interrupt{Type: z80.InterruptType(9)}
						}
						func() {
							defer func() { recover() }()
							c4.Step()
							c4.Step()
						}()
					}
					// mode 0 and mode 2 acceptance
					for kind := 2; kind < c10IsoReqKinds; kind++ {
						c3 := z80.CPU{Memory: mem, IO: io}
						c3.PC, c3.SP, c3.IFF1 = 0x0100, 0xF000, true
						c3.IM, c3.Interrupt = c10IsoReq(kind, t%2)
						c3.Step()
						c3.Step()
					}
				}
			}(t)
		}
		wg.Wait()
	}
	fmt.Println("auxrace C10: done (2, 4, 16 goroutines x all decode paths x 2 Steps + interrupt/Run programs)")
	return 0
}

// auxRaceC13: repeated Run calls with cancellation from another goroutine at
// varying instants, goroutine accounting before/after.
func auxRaceC13() int {
	before := runtime.NumGoroutine()
	progs := c13Progs()
	bg := obs.NewBackground(2)
	n := 0
	bad := 0
	for rep := 0; rep < 400; rep++ {
		for pi := range progs {
			p := &progs[pi]
			mem := obs.NewMem(bg)
			mem.Poke(0x0100, p.code...)
			pm := &plainMem{m: mem}
			cpu := &z80.CPU{Memory: pm, IO: &obs.IO{X: 1, Fixed: true}}
			cpu.PC, cpu.SP = 0x0100, 0xF000
			cpu.IR.Lo = uint8(rep) // the refresh register varies between calls
			ctx, cancel := context.WithCancel(context.Background())
			done := make(chan error, 1)
			go func() {
				defer func() {
					if r := recover(); r != nil {
						done <- errAuxWatchdog
					}
				}()
				done <- cpu.Run(ctx)
			}()
			// cancellation instant: a varying amount of scheduler yields
			for i := 0; i < rep%17; i++ {
				runtime.Gosched()
			}
			cancel()
			atomic.StoreInt32(&pm.cancelled, 1)
			// no wall-clock oracle: the memory aborts the run after 3*10^6 accesses made after cancel()
			err := <-done
			if err == errAuxWatchdog {
				fmt.Printf("auxrace C13: Run had not returned 3000000 memory accesses after cancel() for program %q (call %d, R0=%02X)\n", p.name, n, uint8(rep))
				return 3
			}
			if err != nil && err != context.Canceled {
				bad++
			}
			n++
		}
	}
	// Run left by unwinding: a device callback panics, the embedder recovers
	for rep := 0; rep < 200; rep++ {
		p := &progs[rep%3]
		mem := obs.NewMem(bg)
		mem.Poke(0x0100, p.code...)
		pm := &plainMem{m: mem, panicAt: 50 + rep}
		cpu := &z80.CPU{Memory: pm, IO: &obs.IO{X: 1, Fixed: true}}
		cpu.PC, cpu.SP = 0x0100, 0xF000
		ctx, cancel := context.WithCancel(context.Background())
		func() {
			defer func() { recover() }()
			cpu.Run(ctx)
		}()
		cancel()
		n++
	}
	// a context type of the embedder's own (its own Done channel, no AfterFunc method): the standard library can
	// only watch such a context with a goroutine. 200 Runs that end by HALT while the context stays live must
	// not leave a watcher each behind.
	{
		fc := &foreignCtx{done: make(chan struct{})}
		for rep := 0; rep < 200; rep++ {
			mem := obs.NewMem(bg)
			mem.Poke(0x0100, 0x00, 0x00, 0x76)
			pm := &plainMem{m: mem}
			cpu := &z80.CPU{Memory: pm, IO: &obs.IO{X: 1, Fixed: true}}
			cpu.PC, cpu.SP = 0x0100, 0xF000
			if err := cpu.Run(fc); err != nil {
				bad++
			}
			n++
		}
		deadline := time.Now().Add(5 * time.Second)
		for runtime.NumGoroutine() > before && time.Now().Before(deadline) {
			time.Sleep(5 * time.Millisecond)
		}
		if g := runtime.NumGoroutine(); g > before {
			fmt.Printf("auxrace C13: after 200 Run calls that ended by HALT under a live context of the embedder's own type, %d goroutines exist (before: %d): Run leaves a watcher behind for as long as that context lives\n", g, before)
			return 4
		}
		close(fc.done)
	}
	// goroutines must drain
	deadline := time.Now().Add(5 * time.Second)
	for runtime.NumGoroutine() > before && time.Now().Before(deadline) {
		time.Sleep(5 * time.Millisecond)
	}
	after := runtime.NumGoroutine()
	fmt.Printf("auxrace C13: %d Run calls, unexpected errors %d, goroutines before %d after %d\n", n, bad, before, after)
	if after > before {
		return 4
	}
	if bad > 0 {
		return 5
	}
	return 0
}

var errAuxWatchdog = fmt.Errorf("watchdog")

// plainMem is a memory without logging for free-running passes (obs.Mem logs grow without bound in
// endless loops). Once cancelled is set it counts accesses and aborts the run after 3*10^6.
type plainMem struct {
	m         *obs.Mem
	cancelled int32
	after     int
	panicAt   int // panic at this access (0 = never)
	count     int
}

func (p *plainMem) tick() {
	if p.panicAt > 0 {
		p.count++
		if p.count == p.panicAt {
			panic("device failure injected by the harness")
		}
	}
	if atomic.LoadInt32(&p.cancelled) != 0 {
		p.after++
		if p.after > 3000000 {
			panic(errAuxWatchdog)
		}
	}
}

func (p *plainMem) Get(a uint16) uint8    { p.tick(); return p.m.Peek(a) }
func (p *plainMem) Set(a uint16, v uint8) { p.tick(); p.m.Poke(a, v) }

// foreignCtx is a context.Context implemented by the embedder: nothing but the four methods.
type foreignCtx struct{ done chan struct{} }

func (f *foreignCtx) Deadline() (time.Time, bool)       { return time.Time{}, false }
func (f *foreignCtx) Done() <-chan struct{}             { return f.done }
func (f *foreignCtx) Value(key interface{}) interface{} { return nil }
func (f *foreignCtx) Err() error {
	select {
	case <-f.done:
		return context.Canceled
	default:
		return nil
	}
}
