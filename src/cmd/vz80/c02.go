package main

import (
	"encoding/json"
	"fmt"
	"sync/atomic"

	z80 "github.com/koron-go/z80"
	"github.com/koron-go/z80/internal/verif/obs"
	"github.com/koron-go/z80/internal/verif/refz80"
)

// C02: 8-bit ALU, rotate/shift and bit results and flags are exact for all
// operands. ENUM with complete cubes: for every encoding the reference decoder
// classifies as ALU8 / INC8 / DEC8 / NEG / CPL / DAA / SCF / CCF / RLCA..RRA /
// CB rotate-shift / RLD / RRD / BIT / SET / RES the complete cube of the
// values the operation reads (A x operand x F; operand x F; A x F), the
// operand delivered through the encoding's own route.
func init() {
	register("C02", checkC02)
	replayers["c02/cube"] = replayC02
	replayers["c02/firstuse"] = replayFirstUse
}

type c02Case struct {
	Enc  string `json:"encoding"`
	D    uint8  `json:"d"`
	A    uint8  `json:"a"`
	V    uint8  `json:"operand"`
	F    uint8  `json:"f"`
	Base int    `json:"base"`
}

func c02Kind(k refz80.Kind) bool {
	switch k {
	case refz80.KAlu8, refz80.KInc8, refz80.KDec8, refz80.KAccum, refz80.KNeg, refz80.KRot, refz80.KBit, refz80.KRes, refz80.KSet, refz80.KRld, refz80.KRrd:
		return true
	}
	return false
}

// c02Expect computes the Z80-defined result from refz80's first-principles
// functions: new A, new operand value (if written), new F, compared-bit mask.
func c02Expect(in *refz80.Inst, a, v, f uint8, opIsA bool) (na, nv, nf, mask uint8, writes bool) {
	mask = 0xFF
	na, nv, nf = a, v, f
	switch in.Kind {
	case refz80.KAlu8:
		na, nf = refz80.Alu8(in.Sub, a, v, f)
		if opIsA {
			nv = na
		}
	case refz80.KInc8:
		nv, nf = refz80.Inc8(v, f)
		writes = true
	case refz80.KDec8:
		nv, nf = refz80.Dec8(v, f)
		writes = true
	case refz80.KAccum:
		na, nf, mask = refz80.Accum(in.Sub, a, f)
	case refz80.KNeg:
		na, nf = refz80.Sub8(0, a, 0)
	case refz80.KRot:
		var fl uint8
		nv, fl = refz80.Rot(in.Sub, v, f)
		nf = fl
		writes = true
	case refz80.KBit:
		set := v&(1<<in.Sub) != 0
		nf = f&refz80.FC | refz80.FH | v&(refz80.F5|refz80.F3)
		if !set {
			nf |= refz80.FZ | refz80.FPV
		}
		if set && in.Sub == 7 {
			nf |= refz80.FS
		}
		if in.Src == refz80.LMemHL || in.Src == refz80.LMemIXd || in.Src == refz80.LMemIYd {
			mask = 0xFF &^ (refz80.F5 | refz80.F3)
		}
	case refz80.KRes:
		nv = v &^ (1 << in.Sub)
		writes = true
	case refz80.KSet:
		nv = v | 1<<in.Sub
		writes = true
	case refz80.KRld:
		nv = v<<4 | a&0x0F
		na = a&0xF0 | v>>4
		writes = true
		nf = c02RxdFlags(na, f)
	case refz80.KRrd:
		nv = a<<4 | v>>4
		na = a&0xF0 | v&0x0F
		writes = true
		nf = c02RxdFlags(na, f)
	}
	if opIsA && writes {
		na = nv
	}
	return
}

func c02RxdFlags(a, f uint8) uint8 {
	nf := f&refz80.FC | a&(refz80.FS|refz80.F5|refz80.F3)
	if a == 0 {
		nf |= refz80.FZ
	}
	p := a
	p ^= p >> 4
	p ^= p >> 2
	p ^= p >> 1
	if p&1 == 0 {
		nf |= refz80.FPV
	}
	return nf
}

// c02Runner drives one encoding.
type c02Runner struct {
	cpu  z80.CPU
	mem  *obs.Mem
	io   *obs.IO
	e    *Enc
	loc  refz80.Loc
	base refz80.State
	addr uint16 // operand address for memory operands
	pc   uint16
	code []uint8
	live *liveSlot
	prog c02Progress
}

// c02Progress is what the liveness monitor reports when a Step of this runner does not return.
type c02Progress struct {
	Enc     string `json:"encoding"`
	A, V, F uint8
}

func (r *c02Runner) operandLoc() refz80.Loc {
	in := &r.e.Inst
	switch in.Kind {
	case refz80.KAlu8, refz80.KBit:
		return in.Src
	case refz80.KInc8, refz80.KDec8, refz80.KRot, refz80.KRes, refz80.KSet:
		return in.Dst
	case refz80.KRld, refz80.KRrd:
		return refz80.LMemHL
	}
	return refz80.LA // accumulator group, NEG
}

func (r *c02Runner) setOperand(s *refz80.State, v uint8) {
	switch r.loc {
	case refz80.LB:
		s.B = v
	case refz80.LC:
		s.C = v
	case refz80.LD:
		s.D = v
	case refz80.LE:
		s.E = v
	case refz80.LH:
		s.H = v
	case refz80.LL:
		s.L = v
	case refz80.LA:
		s.A = v
	case refz80.LIXH:
		s.IX = s.IX&0xFF | uint16(v)<<8
	case refz80.LIXL:
		s.IX = s.IX&0xFF00 | uint16(v)
	case refz80.LIYH:
		s.IY = s.IY&0xFF | uint16(v)<<8
	case refz80.LIYL:
		s.IY = s.IY&0xFF00 | uint16(v)
	case refz80.LImm:
		r.code[r.e.NPos] = v
		r.mem.Poke(r.pc+uint16(r.e.NPos), v)
	default: // memory operand
		r.mem.Poke(r.addr, v)
	}
}

func (r *c02Runner) isMem() bool {
	return r.loc == refz80.LMemHL || r.loc == refz80.LMemIXd || r.loc == refz80.LMemIYd
}

// one executes a single cube point and returns a diff or nil.
func (r *c02Runner) one(a, v, f uint8) []string {
	in := &r.e.Inst
	s := r.base
	s.A, s.F = a, f
	r.setOperand(&s, v)
	opIsA := r.loc == refz80.LA
	if opIsA {
		a = v
		s.A = v
	}
	toCPU(&s, &r.cpu)
	r.mem.ClearLog()
	if r.live == nil {
		r.live = newLiveSlot()
	}
	r.prog = c02Progress{r.e.Name, a, v, f}
	r.live.enter(&r.prog)
	panicked := c02StepRaw(&r.cpu)
	r.live.leave()
	if panicked != nil {
		return []string{fmt.Sprintf("Step panicked: %v", panicked)}
	}
	na, nv, nf, mask, writes := c02Expect(in, a, v, f, opIsA)
	exp := s
	exp.A = na
	exp.F = nf
	exp.PC = r.pc + uint16(in.Len)
	if !r.isMem() && r.loc != refz80.LImm {
		r.setOperand(&exp, nv)
		if opIsA {
			exp.A = na
		}
	}
	got := fromCPU(&r.cpu)
	exp.R = got.R
	if (got.F^exp.F)&mask == 0 {
		exp.F = got.F
	}
	ok := got == exp
	if ok && r.isMem() {
		if r.mem.Peek(r.addr) != nv {
			ok = false
		}
		nw := len(r.mem.Writes)
		if (writes && nw != 1) || (!writes && nw != 0) {
			ok = false
		}
	} else if ok && len(r.mem.Writes) != 0 {
		ok = false
	}
	if ok {
		return nil
	}
	var d []string
	d = append(d, fmt.Sprintf("%s A=%02X operand=%02X F=%s: want A=%02X F=%s operand'=%02X ; got A=%02X F=%s (compared mask %02X)", r.e.Name, a, v, flagStr(f), na, flagStr(nf), nv, got.A, flagStr(got.F), mask))
	if r.isMem() {
		d = append(d, fmt.Sprintf("memory operand at %04X: want %02X got %02X, writes %s", r.addr, nv, r.mem.Peek(r.addr), fmtAcc(r.mem.Writes)))
	}
	e2, g2 := exp, got
	e2.A, e2.F, g2.A, g2.F = 0, 0, 0, 0
	if e2 != g2 {
		d = append(d, fmt.Sprintf("other state: want %v got %v", stateMap(&exp), stateMap(&got)))
	}
	return d
}

func c02Step(cpu *z80.CPU) (p interface{}) {
	defer func() { p = recover() }()
	liveStep(cpu)
	return nil
}

// c02StepRaw: for callers that publish their own liveness slot.
func c02StepRaw(cpu *z80.CPU) (p interface{}) {
	defer func() { p = recover() }()
	cpu.Step()
	return nil
}

func newC02Runner(bg *[65536]uint8) *c02Runner {
	r := &c02Runner{mem: obs.NewMem(bg), io: &obs.IO{}}
	r.mem.Limit = 4096 // deterministic watchdog per Step (ClearLog resets the counter)
	r.cpu.Memory = r.mem
	r.cpu.IO = r.io
	return r
}

// prepare sets the runner up for encoding e with displacement d and base k.
func (r *c02Runner) prepare(e *Enc, d uint8, k int) {
	r.e = e
	p := baseVector(k)
	r.base = p.S
	r.pc = p.S.PC
	r.loc = r.operandLoc()
	r.code = append(r.code[:0], e.Fixed...)
	if e.DPos >= 0 {
		r.code[e.DPos] = d
	}
	if e.NPos >= 0 {
		r.code[e.NPos] = p.N
	}
	// the cube runs on a by-value copy of a CPU with a past (warmFork)
	r.mem.Reset()
	lim := r.mem.Limit
	r.mem.Limit = 0
	r.cpu = warmFork(r.mem, r.io, r.mem.Poke, &r.base, r.code)
	r.mem.Limit = lim
	r.mem.Reset()
	r.mem.Poke(r.pc, r.code...)
	switch r.loc {
	case refz80.LMemHL:
		r.addr = uint16(r.base.H)<<8 | uint16(r.base.L)
	case refz80.LMemIXd:
		r.addr = r.base.IX + uint16(int16(int8(d)))
	case refz80.LMemIYd:
		r.addr = r.base.IY + uint16(int16(int8(d)))
	}
}

// l8: boundary values of a byte (nibble and sign boundaries, BCD boundaries, single bits)
var l8 = []uint8{0x00, 0x01, 0x02, 0x04, 0x08, 0x09, 0x0A, 0x0F, 0x10, 0x20, 0x40, 0x55, 0x66, 0x7E, 0x7F, 0x80, 0x81, 0x90, 0x99, 0x9A, 0xA0, 0xAA, 0xEF, 0xF0, 0xFE, 0xFF}

func c02FSet(quick bool) []uint8 {
	if !quick {
		fs := make([]uint8, 256)
		for i := range fs {
			fs[i] = uint8(i)
		}
		return fs
	}
	// every flag the operations read (C, H, N) in all combinations x all other bits 0 / all 1
	var fs []uint8
	for _, other := range []uint8{0x00, 0xEC} {
		for m := 0; m < 8; m++ {
			f := other
			if m&1 != 0 {
				f |= 0x01
			}
			if m&2 != 0 {
				f |= 0x10
			}
			if m&4 != 0 {
				f |= 0x02
			}
			fs = append(fs, f)
		}
	}
	return fs
}

func checkC02(c *Ctx) {
	set, err := implementedSet(c)
	if err != nil {
		fmt.Println("framework error:", err)
		c.Capped("framework error: " + err.Error())
		return
	}
	var encs []*Enc
	for i := range set.Encs {
		if c02Kind(set.Encs[i].Inst.Kind) {
			encs = append(encs, &set.Encs[i])
		}
	}
	fs := c02FSet(c.Quick())
	c.Rule = fmt.Sprintf("for each of the %d encodings refz80 classifies as ALU8/INC/DEC/NEG/CPL/DAA/SCF/CCF/RLCA..RRA/CB rotate-shift/RLD/RRD/BIT/SET/RES: the complete cube of the values the operation reads (A x operand x F for binary forms and RLD/RRD, operand x F for unary forms and BIT/SET/RES, A x F for accumulator forms), operand delivered through the encoding's own route (register, (HL), immediate, IXH..IYL, (IX+d)/(IY+d) with d in {00,01,7F,80}); F over %d values (quick: C,H,N in all combinations x other bits all-0/all-1, plus a second pass over 26 boundary values of A and of the operand x ALL 256 F; thorough: all 256 F on the complete cube); all other registers hold distinct junk from a base vector and must be unchanged. First-use pass: each of these encodings as the very first instruction of 2 fresh processes (all flags clear / all flags set), then swept over the quick lattice x 4 F against refz80 in that process. Non-trivial = result or flags differ from the inputs (counted).", len(encs), len(fs))
	c.Bound = fmt.Sprintf("complete A x operand cube, %d F values", len(fs))
	bg := obsBackground(c)
	type job struct {
		e *Enc
		d uint8
	}
	var jobs []job
	for _, e := range encs {
		if e.DPos >= 0 {
			for _, d := range []uint8{0x00, 0x01, 0x7F, 0x80} {
				jobs = append(jobs, job{e, d})
			}
		} else {
			jobs = append(jobs, job{e, 0})
		}
	}
	runners := make([]*c02Runner, 16)
	var evals, nontriv [16 * 8]int64 // one cache line per worker
	var failedEnc int32
	var capped int32
	parallel(int64(len(jobs)), 1, 16, func(wi int, lo, hi int64) {
		if runners[wi] == nil {
			runners[wi] = newC02Runner(bg)
		}
		r := runners[wi]
		var ev, nt int64
		defer func() { evals[wi*8] += ev; nontriv[wi*8] += nt }()
		for ji := lo; ji < hi; ji++ {
			j := jobs[ji]
			r.prepare(j.e, j.d, int(ji)%4)
			in := &j.e.Inst
			loc := r.loc
			needA := (in.Kind == refz80.KAlu8 || in.Kind == refz80.KRld || in.Kind == refz80.KRrd) && loc != refz80.LA
			aVals := 1
			if needA {
				aVals = 256
			}
			failed := false
			if c.Quick() {
				// quick tier, second pass: boundary values of A and the operand x ALL 256 incoming F
				for _, a8 := range l8 {
					av := a8
					if !needA {
						av = r.base.A
					}
					for _, v := range l8 {
						for f := 0; f < 256 && !failed; f++ {
							d := r.one(av, v, uint8(f))
							ev++
							if d != nil {
								c.Report("c02/cube:"+j.e.Name, int64(av)<<16|int64(v)<<8|int64(f), "", c02Case{j.e.Name, j.d, av, v, uint8(f), int(ji) % 4}, cloneStrings(d))
								failed = true
								atomic.AddInt32(&failedEnc, 1)
							}
							nt++
						}
					}
					if !needA {
						break
					}
				}
			}
			for a := 0; a < aVals && !failed; a++ {
				av := uint8(a)
				if !needA {
					av = r.base.A
				}
				for v := 0; v < 256 && !failed; v++ {
					for _, f := range fs {
						d := r.one(av, uint8(v), f)
						ev++
						if d != nil {
							c.Report("c02/cube:"+j.e.Name, int64(a)<<16|int64(v)<<8|int64(f), "", c02Case{j.e.Name, j.d, av, uint8(v), f, int(ji) % 4}, cloneStrings(d))
							failed = true
							atomic.AddInt32(&failedEnc, 1)
							break
						}
						g := &r.cpu
						if g.AF.Lo != f || g.AF.Hi != av || len(r.mem.Writes) > 0 {
							nt++
						}
					}
				}
				if c.TimeUp() {
					if atomic.CompareAndSwapInt32(&capped, 0, 1) {
						c.Capped("time cap reached before all cubes were finished")
					}
					return
				}
			}
		}
	}, func() bool { return atomic.LoadInt32(&capped) != 0 })
	for i := range evals {
		c.Evaluations += evals[i]
		c.Nontrivial += nontriv[i]
	}
	c.Transitions = c.Evaluations
	c.Traces = c.Evaluations
	c.States = c.Evaluations
	c.Set("encodings_checked", len(encs))
	c.Set("cube_jobs", len(jobs))
	c.Set("f_values", len(fs))
	runFirstUse(c, "c02/firstuse", encs)
	c.Exhaustive = true
	c.Sample(c02Case{"DD 8E (ADC A,(IX+d))", 0x80, 0x7F, 0x80, 0x01, 0})
	c.Sample(c02Case{"27 (DAA)", 0, 0x9A, 0x9A, 0x13, 1})
	c.Sample(c02Case{"FD CB d 7E (BIT 7,(IY+d))", 0x7F, 0x12, 0x80, 0xFF, 2})
	c.Assume("expected values come from refz80's first-principles functions (bound to silicon by the 134 zexdoc/zexall CRCs)")
	c.Assume("SCF/CCF bits 3,5 and BIT n,(HL)/(IX+d)/(IY+d) bits 3,5 not compared (statement)")
	c.Assume("encoding consistency follows from conformance of every encoding to the same reference function")
}

func replayC02(c *Ctx, raw []byte) []string {
	var cs c02Case
	if err := json.Unmarshal(raw, &cs); err != nil {
		return []string{"bad replay file"}
	}
	for _, e := range allEncodings() {
		if e.Name == cs.Enc {
			r := newC02Runner(obsBackground(c))
			e := e
			r.prepare(&e, cs.D, cs.Base)
			return r.one(cs.A, cs.V, cs.F)
		}
	}
	return []string{"unknown encoding " + cs.Enc}
}
