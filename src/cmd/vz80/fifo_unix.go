//go:build unix

package main

import (
	"os"
	"syscall"
)

func makeFifo(path string) error { return syscall.Mkfifo(path, 0o644) }

func openNonblockRead(path string) (*os.File, error) {
	return os.OpenFile(path, os.O_RDONLY|syscall.O_NONBLOCK, 0)
}
