package main

import (
	"fmt"
	"os"
)

// selfcheck runs the framework's own sanity checks (bound of refz80 to
// silicon, ...). A failing self-check makes bin/setup fail: the checks then
// refuse to run rather than report violations.
func selfcheck(name string) int {
	verif := os.Getenv("VERIF")
	if verif == "" {
		verif = "/verif"
	}
	rc := 0
	if name == "" || name == "refcrc" {
		ok, rep := selfcheckRefCRC(verif)
		fmt.Println("selfcheck refcrc:", rep)
		if !ok {
			rc = 1
		}
	}
	if name == "" || name == "sched" {
		ok, rep := selfcheckSched()
		fmt.Println("selfcheck sched:", rep)
		if !ok {
			rc = 1
		}
	}
	if name == "" || name == "refimage" || name == "refimage-full" {
		ok, rep := selfcheckRefImages(verif, name == "refimage-full")
		fmt.Println("selfcheck refimage:", rep)
		if !ok {
			rc = 1
		}
	}
	return rc
}
