package main

func selfcheck(name string) int { return 0 }

func rewriteMain(src, out string) int { return 0 }
