package main

import (
	"encoding/json"
	"fmt"
	"io"
	"log"
	"sync/atomic"

	z80 "github.com/koron-go/z80"
	"github.com/koron-go/z80/internal/verif/obs"
	"github.com/koron-go/z80/internal/verif/refz80"
)

// C11: FD-prefixed instructions do to IY exactly what DD-prefixed ones do to
// IX. Model-free ENUM: all 256 second bytes after DD/FD and all 256 fourth
// bytes after DDCB/FDCB (implemented or not) x lattice with independent IX,IY
// x F. Oracle: unmirror(Step_FD(mirror(s))) = Step_DD(s) on the complete
// state, identical access logs apart from the prefix byte, and neither form
// reads or writes the other index register (flipping it changes nothing).
func init() {
	register("C11", checkC11)
	replayers["c11/mirror"] = replayC11
	replayers["c11/concrete"] = replayConc
}

type c11Runner struct {
	cpu  [2]z80.CPU
	mem  [2]*obs.Mem
	io   [2]*obs.IO
	diff []string
	// nontrivial: the DD Step of the last case changed state beyond PC/R or made a data access
	nontrivial bool
	skipped    bool
	// watch: during run i the index register the form must not use (0 none, 1 IY, 2 IX) and its value;
	// midBad: a callback saw another value there
	watch    [2]int
	watchVal [2]uint16
	midBad   [2]string
	// bank switching from inside a callback: at access number swapAt (>0) of the Step the callback re-points
	// CPU.Memory to alt[i]
	looks  [2]func()
	alt    [2]*obs.Mem
	swapAt int
	nAcc   [2]int
}

func newC11Runner(bg *[65536]uint8) *c11Runner {
	r := &c11Runner{}
	bg2 := obs.NewBackground(0x5EED0002)
	r.alt[0], r.alt[1] = obs.NewMem(bg2), obs.NewMem(bg2)
	r.alt[0].Limit, r.alt[1].Limit = 4096, 4096
	for i := 0; i < 2; i++ {
		r.mem[i] = obs.NewMem(bg)
		r.mem[i].Limit = 4096
		r.io[i] = &obs.IO{}
		r.cpu[i].Memory = r.mem[i]
		r.cpu[i].IO = r.io[i]
		i := i
		look := func() {
			switch r.watch[i] {
			case 1:
				if v := r.cpu[i].IY; v != r.watchVal[i] && r.midBad[i] == "" {
					r.midBad[i] = fmt.Sprintf("during a device callback of the DD form IY reads %04X (before the Step: %04X)", v, r.watchVal[i])
				}
			case 2:
				if v := r.cpu[i].IX; v != r.watchVal[i] && r.midBad[i] == "" {
					r.midBad[i] = fmt.Sprintf("during a device callback of the FD form IX reads %04X (before the Step: %04X)", v, r.watchVal[i])
				}
			}
		}
		r.looks[i] = look
		r.mem[i].Hook = func(bool, uint16) {
			look()
			if r.swapAt > 0 {
				if r.nAcc[i] == r.swapAt {
					r.cpu[i].Memory = r.alt[i]
				}
				r.nAcc[i]++
			}
		}
		r.io[i].Hook = func(bool, uint8) { look() }
	}
	return r
}

func (r *c11Runner) run(i int, cs *Case, prefix uint8, s *refz80.State) (refz80.State, interface{}) {
	m := r.mem[i]
	m.Reset()
	for _, p := range cs.Pokes {
		m.Poke(p.Addr, p.Data...)
	}
	m.Poke(cs.S.PC, cs.Bytes...)
	m.Poke(cs.S.PC, prefix)
	r.io[i].Reset()
	r.io[i].X, r.io[i].Y, r.io[i].Fixed = cs.IOX, cs.IOY, cs.IOFixed
	toCPU(s, &r.cpu[i])
	r.cpu[i].Interrupt = nil
	r.midBad[i] = ""
	if prefix == 0xDD {
		r.watch[i], r.watchVal[i] = 1, s.IY
	} else {
		r.watch[i], r.watchVal[i] = 2, s.IX
	}
	p := c02Step(&r.cpu[i])
	r.watch[i] = 0
	return fromCPU(&r.cpu[i]), p
}

func mirrorState(s refz80.State) refz80.State {
	s.IX, s.IY = s.IY, s.IX
	return s
}

func sameLogsButPrefix(a, b *obs.Mem) bool {
	if len(a.Reads) != len(b.Reads) || len(a.Writes) != len(b.Writes) {
		return false
	}
	for i := range a.Reads {
		if i == 0 {
			if a.Reads[0].Addr != b.Reads[0].Addr {
				return false
			}
			continue
		}
		if a.Reads[i] != b.Reads[i] {
			return false
		}
	}
	for i := range a.Writes {
		if a.Writes[i] != b.Writes[i] {
			return false
		}
	}
	return true
}

// one checks one case (cs.Bytes hold the DD form). Returns a diff or nil.
func (r *c11Runner) one(cs *Case) []string {
	d := r.diff[:0]
	r.skipped = false
	// A: DD form from s ; B: FD form from mirror(s)
	pa, panA := r.run(0, cs, 0xDD, &cs.S)
	pre := cs.S
	pre.PC, pre.R = pa.PC, pa.R
	r.nontrivial = pa != pre || len(r.mem[0].Writes) > 0 || len(r.io[0].Log) > 0 || len(r.mem[0].Reads) > len(cs.Bytes)
	ms := mirrorState(cs.S)
	pb, panB := r.run(1, cs, 0xFD, &ms)
	if panA != nil || panB != nil {
		if fmt.Sprint(panA) != fmt.Sprint(panB) {
			d = append(d, fmt.Sprintf("panic differs: DD %v, FD %v", panA, panB))
		}
		r.diff = d
		return d
	}
	// A data read of the prefix byte itself (operand overlapping the
	// instruction's first byte) legitimately differs between the two forms.
	for i, rd := range r.mem[0].Reads {
		if i > 0 && rd.Addr == cs.S.PC {
			r.diff = d
			r.skipped = true
			return nil
		}
	}
	if um := mirrorState(pb); um != pa {
		d = append(d, fmt.Sprintf("unmirror(FD(mirror(s))) != DD(s): DD post %v ; FD post (unmirrored) %v", stateMap(&pa), stateMap(&um)))
	}
	if !sameLogsButPrefix(r.mem[0], r.mem[1]) {
		d = append(d, fmt.Sprintf("access logs differ: DD reads %s writes %s ; FD reads %s writes %s", fmtAcc(r.mem[0].Reads), fmtAcc(r.mem[0].Writes), fmtAcc(r.mem[1].Reads), fmtAcc(r.mem[1].Writes)))
	}
	if !obs.SamePorts(r.io[0].Log, r.io[1].Log) {
		d = append(d, fmt.Sprintf("port logs differ: DD %s FD %s", fmtPorts(r.io[0].Log), fmtPorts(r.io[1].Log)))
	}
	for i := 0; i < 2; i++ {
		if r.midBad[i] != "" {
			d = append(d, r.midBad[i]+": the form must neither read nor write the other index register, at any time a device can look")
		}
	}
	if len(d) > 0 {
		r.diff = d
		return d
	}
	nAccA := len(r.mem[0].Reads) + len(r.mem[0].Writes)
	// E: the next Step on both CPUs with an NMI pending: whatever the first Step left behind besides the
	// exported state (a "do not accept an interrupt yet" mark after a prefix, say) must be the same in both forms
	{
		r.cpu[0].Interrupt, r.cpu[1].Interrupt = z80.NMIInterrupt(), z80.NMIInterrupt()
		r.mem[0].ClearLog()
		r.mem[1].ClearLog()
		p0, p1 := c02Step(&r.cpu[0]), c02Step(&r.cpu[1])
		s0, s1 := fromCPU(&r.cpu[0]), mirrorState(fromCPU(&r.cpu[1]))
		if fmt.Sprint(p0) != fmt.Sprint(p1) {
			d = append(d, fmt.Sprintf("the Step after it, with an NMI pending: panic differs: DD %v, FD %v", p0, p1))
		} else if p0 == nil {
			if s0 != s1 || (r.cpu[0].Interrupt == nil) != (r.cpu[1].Interrupt == nil) {
				d = append(d, fmt.Sprintf("the Step after it, with an NMI pending, differs between the forms (request consumed: DD %v, FD %v): after DD %v ; after FD (unmirrored) %v", r.cpu[0].Interrupt == nil, r.cpu[1].Interrupt == nil, stateMap(&s0), stateMap(&s1)))
			} else if !sameLogs(r.mem[0], r.mem[1]) {
				d = append(d, "the Step after it, with an NMI pending, makes different memory accesses in the two forms")
			}
		}
		r.cpu[0].Interrupt, r.cpu[1].Interrupt = nil, nil
		if len(d) > 0 {
			r.diff = d
			return d
		}
	}
	// G: a probe instruction after the mirrored one. What the first instruction leaves behind besides the exported
	// state (an emulated MEMPTR, a "last instruction changed the flags" latch) must be the same in both forms, so
	// the complete outcome of the next instruction - undocumented flag bits included, this is the tree against
	// itself - must agree: BIT 0,(HL) and SCF.
	if nAccA >= 0 {
		for _, probe := range [][]uint8{{0xCB, 0x46}, {0x37}} {
			qa, pA := r.run(0, cs, 0xDD, &cs.S)
			qb, pB := r.run(1, cs, 0xFD, &ms)
			if pA != nil || pB != nil || mirrorState(qb) != qa {
				break
			}
			r.mem[0].Poke(qa.PC, probe...)
			r.mem[1].Poke(qb.PC, probe...)
			p0, p1 := c02Step(&r.cpu[0]), c02Step(&r.cpu[1])
			s0, s1 := fromCPU(&r.cpu[0]), mirrorState(fromCPU(&r.cpu[1]))
			if fmt.Sprint(p0) != fmt.Sprint(p1) || (p0 == nil && s0 != s1) {
				d = append(d, fmt.Sprintf("the instruction % X executed right after it ends differently in the two forms (what the first instruction left behind is not mirrored): after DD %v ; after FD (unmirrored) %v", probe, stateMap(&s0), stateMap(&s1)))
				r.diff = d
				return d
			}
		}
	}
	// F: an embedder that switches banks by re-pointing CPU.Memory from inside the callback at access k of the
	// Step. Which object serves the rest of the instruction is the implementation's business - but it must be
	// the same business in both forms.
	if r.alt[0] != nil && nAccA > len(cs.Bytes) {
		// (only forms that access data; every access index after the first fetch)
		for k := 1; k < nAccA && len(d) == 0; k++ {
			r.swapAt = k
			r.alt[0].Reset()
			r.alt[1].Reset()
			r.nAcc[0], r.nAcc[1] = 0, 0
			qa, panA := r.run(0, cs, 0xDD, &cs.S)
			qb, panB := r.run(1, cs, 0xFD, &ms)
			r.swapAt = 0
			r.cpu[0].Memory, r.cpu[1].Memory = r.mem[0], r.mem[1]
			if fmt.Sprint(panA) != fmt.Sprint(panB) {
				d = append(d, fmt.Sprintf("bank switch at access %d: panic differs: DD %v, FD %v", k, panA, panB))
			} else if panA == nil {
				if um := mirrorState(qb); um != qa {
					d = append(d, fmt.Sprintf("bank switch (CPU.Memory re-pointed by the callback) at access %d of the Step: DD post %v ; FD post (unmirrored) %v", k, stateMap(&qa), stateMap(&um)))
				} else if !sameLogsButPrefix(r.mem[0], r.mem[1]) || !sameLogs(r.alt[0], r.alt[1]) {
					d = append(d, fmt.Sprintf("bank switch (CPU.Memory re-pointed by the callback) at access %d of the Step: the two forms touch the banks differently: DD old bank reads %s writes %s, new bank reads %s writes %s ; FD old bank reads %s writes %s, new bank reads %s writes %s", k,
						fmtAcc(r.mem[0].Reads), fmtAcc(r.mem[0].Writes), fmtAcc(r.alt[0].Reads), fmtAcc(r.alt[0].Writes), fmtAcc(r.mem[1].Reads), fmtAcc(r.mem[1].Writes), fmtAcc(r.alt[1].Reads), fmtAcc(r.alt[1].Writes)))
				}
			}
		}
		if len(d) > 0 {
			r.diff = d
			return d
		}
	}
	// re-establish arm A's and B's logs for the arms below
	pa, _ = r.run(0, cs, 0xDD, &cs.S)
	pb, _ = r.run(1, cs, 0xFD, &ms)
	// C: DD form with the other index register (IY) flipped: identical outcome, IY untouched
	fs := cs.S
	fs.IY ^= 0xA5C3
	pc, panC := r.run(1, cs, 0xDD, &fs)
	want := pa
	want.IY = pa.IY ^ 0xA5C3
	if panC != nil || pc != want || pa.IY != cs.S.IY {
		d = append(d, fmt.Sprintf("DD form depends on or modifies IY: IY=%04X -> post %v ; IY=%04X -> post %v", cs.S.IY, stateMap(&pa), fs.IY, stateMap(&pc)))
	} else if !sameLogs(r.mem[0], r.mem[1]) {
		d = append(d, "DD form's memory accesses depend on IY")
	}
	// D: FD form with IX flipped (on the mirrored state ms, IX holds the old IY)
	pbm := pb
	fs2 := ms
	fs2.IX ^= 0x5A3C
	pd, panD := r.run(0, cs, 0xFD, &fs2)
	want2 := pbm
	want2.IX = pbm.IX ^ 0x5A3C
	if panD != nil || pd != want2 || pbm.IX != ms.IX {
		d = append(d, fmt.Sprintf("FD form depends on or modifies IX: IX=%04X -> post %v ; IX=%04X -> post %v", ms.IX, stateMap(&pbm), fs2.IX, stateMap(&pd)))
	}
	r.diff = d
	if len(d) == 0 {
		return nil
	}
	return d
}

func sameLogs(a, b *obs.Mem) bool {
	if len(a.Reads) != len(b.Reads) || len(a.Writes) != len(b.Writes) {
		return false
	}
	for i := range a.Reads {
		if a.Reads[i] != b.Reads[i] {
			return false
		}
	}
	for i := range a.Writes {
		if a.Writes[i] != b.Writes[i] {
			return false
		}
	}
	return true
}

func checkC11(c *Ctx) {
	// all DD second bytes and all DDCB fourth bytes, implemented or not
	var encs []Enc
	for op := 0; op < 256; op++ {
		if op == 0xCB {
			continue
		}
		encs = append(encs, buildEnc([]uint8{0xDD, uint8(op)}))
	}
	for op := 0; op < 256; op++ {
		encs = append(encs, buildEnc([]uint8{0xDD, 0xCB, 0, uint8(op)}))
	}
	fs := c02FSet(c.Quick())
	if c.Quick() {
		fs = append(fs, 0x44, 0x81, 0xC5, 0x3A)
	}
	lat := newLattice(c.Salt, false)
	c.Rule = fmt.Sprintf("all 255 second bytes after DD/FD and all 256 fourth bytes after DDCB/FDCB (implemented or not) x lattice (as C01 quick, IX and IY independent and distinct; all 256 d for forms with a displacement) x %d F values; per case 4 real Steps: DD(s), FD(mirror s), DD(s with IY flipped), FD(mirror s with IX flipped); no reference model; during every device callback - and whenever the package writes to the log while executing a form - the other index register holds its value; the next Step with an NMI pending is the same in both forms; the probe instructions BIT 0,(HL) and SCF executed right after it end identically (all flag bits); with the callback re-pointing CPU.Memory to another bank at every access after the first fetch of the Step (forms with a data access) both forms touch the two banks identically. Concrete-type pass: both forms of every byte on DumbMemory (len 65536, 65536+256, 32768) and MapMemory handed over unwrapped vs behind an opaque wrapper (same post-state and contents), which carries the symmetry over to the package's own device types. Non-trivial = the DD Step changed state beyond PC/R or made a data access (counted).", len(fs))
	c.Bound = fmt.Sprintf("lattice v1 quick x %d F", len(fs))
	bg := obsBackground(c)
	runners := make([]*c11Runner, 16)
	var evals, nontriv, protos [16 * 8]int64
	var capped int32
	parallel(int64(len(encs)), 1, 16, func(wi int, lo, hi int64) {
		if runners[wi] == nil {
			runners[wi] = newC11Runner(bg)
		}
		r := runners[wi]
		var ev, nt, np int64
		defer func() { evals[wi*8] += ev; nontriv[wi*8] += nt; protos[wi*8] += np }()
		seen := map[protoKey]struct{}{}
		var cs Case
		for ei := lo; ei < hi; ei++ {
			e := &encs[ei]
			failed := false
			lat.forEachProto(e, seen, func(idx int, p *Proto) {
				if failed {
					return
				}
				if p.S.IX == p.S.IY {
					return // the mirror oracle needs distinct index registers to be sharp; aliasing is C01's
				}
				np++
				materialise(p, e, &cs)
				for _, f := range fs {
					cs.S.F = f
					d := r.one(&cs)
					if r.skipped {
						continue
					}
					ev++
					if d != nil {
						diff := append([]string{fmt.Sprintf("encoding %s (%s) at PC=%04X", e.Name, hexBytes(cs.Bytes), cs.S.PC)}, d...)
						c.Report("c11/mirror:"+e.Name, int64(idx)*256+int64(f), "", cs.toJSON(c.Salt), cloneStrings(diff))
						failed = true
						return
					}
					if r.nontrivial {
						nt++
					}
				}
			})
			if c.TimeUp() {
				if atomic.CompareAndSwapInt32(&capped, 0, 1) {
					c.Capped("time cap reached")
				}
				return
			}
		}
	}, func() bool { return atomic.LoadInt32(&capped) != 0 })
	for i := range evals {
		c.Evaluations += evals[i]
		c.Nontrivial += nontriv[i]
		c.States += protos[i]
	}
	c.States *= int64(len(fs))
	c.Transitions = c.Evaluations * 4
	c.Traces = c.Evaluations
	// the log destination is an observer too: when a form logs (an unassigned code), the writer may look at the
	// CPU - the other index register holds its value then as well. Single-threaded (the logger is global).
	{
		r := newC11Runner(bg)
		cur := -1
		log.SetOutput(c11LogWriter(func() {
			if cur >= 0 {
				r.looks[cur]()
			}
		}))
		var cs Case
		var nlog int64
		for ei := range encs {
			e := &encs[ei]
			if len(e.Fixed) == 4 && ei%8 != 0 {
				continue
			}
			for b := 0; b < 2; b++ {
				p := baseVector(b)
				materialise(&p, e, &cs)
				ms := mirrorState(cs.S)
				cur = 0
				r.run(0, &cs, 0xDD, &cs.S)
				cur = 1
				r.run(1, &cs, 0xFD, &ms)
				cur = -1
				nlog++
				for i := 0; i < 2; i++ {
					if r.midBad[i] != "" {
						c.Report("c11/mirror:"+e.Name, int64(ei)*4+int64(b), "", cs.toJSON(c.Salt), []string{fmt.Sprintf("encoding %s (%s): %s (seen from a device callback or from the writer the package logs to while executing the form)", e.Name, hexBytes(cs.Bytes), r.midBad[i])})
					}
				}
			}
		}
		log.SetOutput(io.Discard)
		c.Evaluations += nlog
	}
	c.Set("second_and_fourth_bytes", len(encs))
	// the same forms on the package's concrete memory types: a type-switched fast path in one form only
	// would break the symmetry for embedders that use DumbMemory/MapMemory directly
	var both []*Enc
	var fdEncs []Enc
	for i := range encs {
		fixed := append([]uint8{}, encs[i].Fixed...)
		fixed[0] = 0xFD
		fdEncs = append(fdEncs, buildEnc(fixed))
	}
	for i := range encs {
		both = append(both, &encs[i], &fdEncs[i])
	}
	runConcreteTypes(c, "c11/concrete", both, []uint8{0x45, 0xBA})
	c.Exhaustive = true
	var cs Case
	p := baseVector(0)
	e := buildEnc([]uint8{0xDD, 0xE3})
	materialise(&p, &e, &cs)
	c.Sample(cs.toJSON(c.Salt))
	c.Assume("differential oracle: a defect that is mirrored faithfully in both arms is invisible here (C01 covers it)")
}

func replayC11(c *Ctx, raw []byte) []string {
	var j CaseJSON
	if err := json.Unmarshal(raw, &j); err != nil {
		return []string{"bad replay file"}
	}
	cs := caseFromJSON(&j)
	r := newC11Runner(obs.NewBackground(j.Salt))
	return cloneStrings(r.one(&cs))
}

// c11LogWriter calls f on every Write (the application's log destination looking at the CPU).
type c11LogWriter func()

func (w c11LogWriter) Write(p []byte) (int, error) { w(); return len(p), nil }
