package main

import (
	"bytes"
	"context"
	"encoding/json"
	"fmt"
	"go/ast"
	"go/parser"
	"go/token"
	"os"
	"os/exec"
	"path/filepath"
	"sort"
	"strings"
	"time"

	"github.com/koron-go/z80/internal/verif/obs"
)

// Environment sensitivity. A Step depends on States, the pending request,
// memory and ports - not on the process environment. The non-test sources of
// the package under check are scanned (go/parser) for the environment variables
// they read (os.Getenv / os.LookupEnv / syscall.Getenv with a literal name);
// for every name found, fresh processes are started with the variable set to
// each of a few customary values, and every pinned encoding is executed from
// the base vectors and compared with refz80 on every aspect, access logs
// included. Reads that cannot be enumerated (a computed name, os.Environ) are
// reported in the evidence, not guessed.

type envScan struct {
	Names         []string `json:"variables_read"`
	NotEnumerable []string `json:"reads_that_cannot_be_enumerated,omitempty"`
}

func scanEnvReads(dir string) envScan {
	var res envScan
	seen := map[string]bool{}
	fset := token.NewFileSet()
	ents, _ := os.ReadDir(dir)
	for _, e := range ents {
		n := e.Name()
		if e.IsDir() || !strings.HasSuffix(n, ".go") || strings.HasSuffix(n, "_test.go") {
			continue
		}
		f, err := parser.ParseFile(fset, filepath.Join(dir, n), nil, 0)
		if err != nil {
			continue
		}
		ast.Inspect(f, func(nd ast.Node) bool {
			call, ok := nd.(*ast.CallExpr)
			if !ok {
				return true
			}
			sel, ok := call.Fun.(*ast.SelectorExpr)
			if !ok {
				return true
			}
			pkg, ok := sel.X.(*ast.Ident)
			if !ok || (pkg.Name != "os" && pkg.Name != "syscall") {
				return true
			}
			switch sel.Sel.Name {
			case "Getenv", "LookupEnv":
				if len(call.Args) == 1 {
					if lit, ok := call.Args[0].(*ast.BasicLit); ok && lit.Kind == token.STRING {
						name := strings.Trim(lit.Value, "\"`")
						if !seen[name] {
							seen[name] = true
							res.Names = append(res.Names, name)
						}
						return true
					}
				}
				res.NotEnumerable = append(res.NotEnumerable, fmt.Sprintf("%s: %s.%s with a computed name", fset.Position(call.Pos()), pkg.Name, sel.Sel.Name))
			case "Environ", "ExpandEnv":
				res.NotEnumerable = append(res.NotEnumerable, fmt.Sprintf("%s: %s.%s", fset.Position(call.Pos()), pkg.Name, sel.Sel.Name))
			}
			return true
		})
	}
	sort.Strings(res.Names)
	return res
}

type envChildOut struct {
	Name  string   `json:"variable"`
	Value string   `json:"value"`
	Case  CaseJSON `json:"case"`
	Diff  []string `json:"diff"`
	Cases int64    `json:"cases"`
}

// envChild is `vz80 envchild <verif dir> <salt>`: every pinned encoding from the 4 base vectors x F in {00,FF}, all aspects.
func envChild(args []string) int {
	if len(args) < 2 {
		return 2
	}
	pinned, err := pinnedImplemented(args[0])
	if err != nil {
		fmt.Fprintln(os.Stderr, err)
		return 2
	}
	var salt uint32
	fmt.Sscan(args[1], &salt)
	w := newWorker(obs.NewBackground(salt))
	out := envChildOut{}
	var cs Case
	for _, e := range allEncodings() {
		if !e.Valid || !pinned[e.Name] {
			continue
		}
		e := e
		for b := 0; b < 4; b++ {
			for _, f := range []uint8{0x00, 0xFF} {
				p := baseVector(b)
				materialise(&p, &e, &cs)
				cs.S.F = f
				res := w.stepBoth(&cs)
				out.Cases++
				if d := w.compare(&cs, res, AspState|AspI|AspR|AspMem|AspReads|AspWrites|AspPortLog|AspHandlers); d != nil {
					out.Case = cs.toJSON(salt)
					out.Diff = append([]string{fmt.Sprintf("encoding %s (%s) at PC=%04X", e.Name, hexBytes(cs.Bytes), cs.S.PC)}, cloneStrings(d)...)
					bb, _ := json.Marshal(out)
					fmt.Println(string(bb))
					return 3
				}
			}
		}
	}
	bb, _ := json.Marshal(out)
	fmt.Println(string(bb))
	return 0
}

var envValues = []string{"1", "true", "on", "debug", "0"}

// runEnvSense is the parent side.
func runEnvSense(c *Ctx, name string) {
	repo := os.Getenv("VERIF_REPO")
	if repo == "" {
		repo = "/repo"
	}
	scan := scanEnvReads(repo)
	c.Set("environment_variables_read_by_the_package", scan)
	self, err := os.Executable()
	if err != nil || len(scan.Names) == 0 {
		return
	}
	var procs, cases int64
	for _, n := range scan.Names {
		for _, v := range envValues {
			ctx, cancel := context.WithTimeout(context.Background(), 2*time.Minute)
			cmd := exec.CommandContext(ctx, self, "envchild", c.Verif, fmt.Sprint(c.Salt))
			cmd.Env = append(os.Environ(), n+"="+v)
			var so, se bytes.Buffer
			cmd.Stdout, cmd.Stderr = &so, &se
			rerr := cmd.Run()
			cancel()
			procs++
			var out envChildOut
			// the variable may make the package print to stdout as well: the verdict is the last line
			lines := bytes.Split(bytes.TrimSpace(so.Bytes()), []byte("\n"))
			if jerr := json.Unmarshal(lines[len(lines)-1], &out); jerr != nil {
				c.Report(name+":"+n, procs, "", map[string]string{"variable": n, "value": v}, []string{fmt.Sprintf("process started with %s=%s ended without a verdict: %v; stderr: %.400s", n, v, rerr, se.String())})
				break
			}
			cases += out.Cases
			if len(out.Diff) > 0 {
				out.Name, out.Value = n, v
				c.Report(name+":"+n, procs, "", out, append([]string{fmt.Sprintf("process started with the environment variable %s=%s (the package reads it): a Step no longer does what it does without it", n, v)}, out.Diff...))
				break
			}
		}
	}
	c.Evaluations += cases
	c.Transitions += cases
	c.Traces += procs
	c.Nontrivial += cases
	c.Set("environment_processes", procs)
}

func replayEnvSense(c *Ctx, raw []byte) []string {
	var o envChildOut
	if err := json.Unmarshal(raw, &o); err != nil || o.Name == "" {
		return []string{"bad replay file"}
	}
	self, err := os.Executable()
	if err != nil {
		return []string{err.Error()}
	}
	cmd := exec.Command(self, "envchild", c.Verif, fmt.Sprint(o.Case.Salt))
	cmd.Env = append(os.Environ(), o.Name+"="+o.Value)
	var so bytes.Buffer
	cmd.Stdout = &so
	cmd.Run()
	lines := bytes.Split(bytes.TrimSpace(so.Bytes()), []byte("\n"))
	var out envChildOut
	if err := json.Unmarshal(lines[len(lines)-1], &out); err != nil {
		return []string{"child gave no verdict"}
	}
	return out.Diff
}
