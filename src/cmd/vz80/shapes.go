package main

import (
	"fmt"

	z80 "github.com/koron-go/z80"
	"github.com/koron-go/z80/internal/verif/obs"
	"github.com/koron-go/z80/internal/verif/refz80"
)

// Device shapes. CPU.IO, CPU.RETNHandler and CPU.RETIHandler are interfaces;
// what an embedder stores in them need not be a pointer to a struct. A
// stateless device is perfectly served by a nil pointer whose methods never
// touch the receiver, by a zero-size struct value, by a named integer that
// happens to be 0, by a nil map. "Is a device attached?" is answered by the
// interface being non-nil, never by looking inside it (reflect.IsNil/IsZero).
// Every port instruction is executed with each such shape stored directly in
// CPU.IO and, on a twin, with the same value behind an ordinary pointer
// wrapper: same post-state, same memory, same calls (a package-level log; the
// pass is single-threaded).

var shapeLog []obs.PortAccess

func shapeIn(p uint8) uint8 {
	v := p*29 + 7
	shapeLog = append(shapeLog, obs.PortAccess{Out: false, Port: p, Val: v})
	return v
}
func shapeOut(p, v uint8) { shapeLog = append(shapeLog, obs.PortAccess{Out: true, Port: p, Val: v}) }

type nilPtrDev struct{ _ int }

func (*nilPtrDev) In(p uint8) uint8 { return shapeIn(p) }
func (*nilPtrDev) Out(p, v uint8)   { shapeOut(p, v) }

type zeroStructDev struct{}

func (zeroStructDev) In(p uint8) uint8 { return shapeIn(p) }
func (zeroStructDev) Out(p, v uint8)   { shapeOut(p, v) }

type zeroByteDev uint8

func (zeroByteDev) In(p uint8) uint8 { return shapeIn(p) }
func (zeroByteDev) Out(p, v uint8)   { shapeOut(p, v) }

type nilMapDev map[uint8]uint8

func (m nilMapDev) In(p uint8) uint8 {
	if v, ok := m[p]; ok {
		return v
	}
	return shapeIn(p)
}
func (nilMapDev) Out(p, v uint8) { shapeOut(p, v) }

type nilFuncDev func()

func (nilFuncDev) In(p uint8) uint8 { return shapeIn(p) }
func (nilFuncDev) Out(p, v uint8)   { shapeOut(p, v) }

var ioShapes = []struct {
	name string
	dev  z80.IO
}{
	{"a nil *T whose methods do not touch the receiver", (*nilPtrDev)(nil)},
	{"a zero-size struct value", zeroStructDev{}},
	{"a named uint8 with value 0", zeroByteDev(0)},
	{"a nil map type", nilMapDev(nil)},
	{"a nil func type", nilFuncDev(nil)},
}

// handler shapes
var shapeNotified int

type nilPtrHandler struct{ _ int }

func (*nilPtrHandler) RETNHandle() { shapeNotified++ }
func (*nilPtrHandler) RETIHandle() { shapeNotified++ }

type zeroStructHandler struct{}

func (zeroStructHandler) RETNHandle() { shapeNotified++ }
func (zeroStructHandler) RETIHandle() { shapeNotified++ }

type zeroByteHandler uint8

func (zeroByteHandler) RETNHandle() { shapeNotified++ }
func (zeroByteHandler) RETIHandle() { shapeNotified++ }

type handlerBoth interface {
	z80.RETNHandler
	z80.RETIHandler
}

var handlerShapes = []struct {
	name string
	h    handlerBoth
}{
	{"a nil *T whose methods do not touch the receiver", (*nilPtrHandler)(nil)},
	{"a zero-size struct value", zeroStructHandler{}},
	{"a named uint8 with value 0", zeroByteHandler(0)},
}

type shapeCase struct {
	Shape string   `json:"device_shape"`
	Case  CaseJSON `json:"case"`
}

func portForm(e *Enc) bool {
	switch e.Inst.Kind {
	case refz80.KInC, refz80.KInAn, refz80.KBlkIn, refz80.KOutnA, refz80.KOutC, refz80.KBlkOut:
		return true
	}
	return false
}

// runDeviceShapes: single-threaded.
func runDeviceShapes(c *Ctx, name string) {
	set, err := implementedSet(c)
	if err != nil {
		return
	}
	lat := newLattice(c.Salt, false)
	bg := obsBackground(c)
	memA, memB := obs.NewMem(bg), obs.NewMem(bg)
	memA.Limit, memB.Limit = 4096, 4096
	var n int64
	seen := map[protoKey]struct{}{}
	var cs Case
	for i := range set.Encs {
		e := &set.Encs[i]
		if !portForm(e) {
			continue
		}
		for _, sh := range ioShapes {
			sh := sh
			failed := false
			lat.forEachProto(e, seen, func(idx int, p *Proto) {
				if failed || p.Env != 0 {
					return
				}
				materialise(p, e, &cs)
				for _, f := range []uint8{0x00, 0xFF} {
					cs.S.F = f
					var post [2]refz80.State
					var logs [2][]obs.PortAccess
					var pans [2]interface{}
					for side := 0; side < 2; side++ {
						m := []*obs.Mem{memA, memB}[side]
						m.Reset()
						for _, pk := range cs.Pokes {
							m.Poke(pk.Addr, pk.Data...)
						}
						m.Poke(cs.S.PC, cs.Bytes...)
						cpu := z80.CPU{Memory: m}
						if side == 0 {
							cpu.IO = sh.dev
						} else {
							cpu.IO = &opaqueIO{sh.dev}
						}
						toCPU(&cs.S, &cpu)
						shapeLog = shapeLog[:0]
						pans[side] = c02Step(&cpu)
						post[side] = fromCPU(&cpu)
						logs[side] = append([]obs.PortAccess{}, shapeLog...)
					}
					n++
					var d []string
					if fmt.Sprint(pans[0]) != fmt.Sprint(pans[1]) {
						d = append(d, fmt.Sprintf("panic differs: stored directly %v, behind a pointer wrapper %v", pans[0], pans[1]))
					} else if pans[0] == nil {
						if post[0] != post[1] {
							d = append(d, fmt.Sprintf("post-state differs: device stored directly %v ; behind a pointer wrapper %v", stateMap(&post[0]), stateMap(&post[1])))
						}
						if !obs.SamePorts(logs[0], logs[1]) {
							d = append(d, fmt.Sprintf("calls reaching the device differ: stored directly %s ; behind a pointer wrapper %s", fmtPorts(logs[0]), fmtPorts(logs[1])))
						}
						if ok, a := memA.EqualContents(memB); !ok {
							d = append(d, fmt.Sprintf("memory[%04X] differs: %02X vs %02X", a, memA.Peek(a), memB.Peek(a)))
						}
					}
					if len(d) > 0 {
						c.Report(name+":"+e.Name, int64(idx), "", shapeCase{sh.name, cs.toJSON(c.Salt)}, append([]string{fmt.Sprintf("encoding %s (%s); CPU.IO holds %s (a stateless device; the interface value is non-nil)", e.Name, hexBytes(cs.Bytes), sh.name)}, d...))
						failed = true
						return
					}
				}
			})
		}
	}
	// handlers of these shapes are notified exactly once by RETN / RETI
	for _, hs := range handlerShapes {
		for _, op := range []uint8{0x45, 0x4D} {
			memA.Reset()
			memA.Poke(0x0100, 0xED, op)
			cpu := z80.CPU{Memory: memA}
			cpu.PC, cpu.SP = 0x0100, 0x8000
			cpu.RETNHandler, cpu.RETIHandler = hs.h, hs.h
			shapeNotified = 0
			pan := c02Step(&cpu)
			n++
			if pan != nil || shapeNotified != 1 {
				c.Report(name+":handler", int64(op), "", map[string]string{"handler_shape": hs.name, "bytes": fmt.Sprintf("ED %02X", op)}, []string{fmt.Sprintf("ED %02X with RETN/RETI handlers that are %s (non-nil interface values): notified %d times (want 1), panic %v", op, hs.name, shapeNotified, pan)})
			}
		}
	}
	c.Evaluations += n
	c.Transitions += 2 * n
	c.Traces += n
	c.Nontrivial += n
	c.Set("device_shape_cases", n)
}
