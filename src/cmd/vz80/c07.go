package main

import (
	"encoding/json"
	"fmt"
	"sync/atomic"

	z80 "github.com/koron-go/z80"
	"github.com/koron-go/z80/internal/verif/obs"
	"github.com/koron-go/z80/internal/verif/refz80"
)

// C07: an interrupt at any instruction boundary is transparent to the running
// program. BFS, deviation-bounded: the default environment answer is "no
// request"; one deviation = a request raised before dynamic Step j. All
// programs of <=2 (quick) / <=3 (thorough) fragments over a 20-fragment
// alphabet x initial IFF x every j x 8 request kinds (thorough: pairs j1<j2).
// Oracle (model-free): the interrupted run and the undisturbed run of the
// same program end in the same state and memory (outside the dead stack area
// and the handler's counter); the request is accepted at the first boundary
// where it is acceptable; the pushed return address is the PC before the
// accepting Step.
func init() {
	register("C07", checkC07)
	replayers["c07/transparent"] = replayC07
}

type c07Frag struct {
	name string
	code []uint8
}

const (
	c07Code    = 0x0100
	c07Sub     = 0x0500
	c07Cnt     = 0x7000
	c07SP      = 0xF000
	c07CallTgt = 0x0300
	c07IM2a    = 0x0400
	c07IM2b    = 0x0440
)

func c07Frags() []c07Frag {
	return []c07Frag{
		{"INC A", []uint8{0x3C}},
		{"LD B,7", []uint8{0x06, 0x07}},
		{"LD (5000),A", []uint8{0x32, 0x00, 0x50}},
		{"ADD IX,BC", []uint8{0xDD, 0x09}},
		{"BIT 3,(IY+5)", []uint8{0xFD, 0xCB, 0x05, 0x5E}},
		{"PUSH BC;POP DE", []uint8{0xC5, 0xD1}},
		{"CALL sub", []uint8{0xCD, uint8(c07Sub & 0xFF), uint8(c07Sub >> 8)}},
		{"LD B,3;L:DEC D;DJNZ L", []uint8{0x06, 0x03, 0x15, 0x10, 0xFD}},
		{"LDIR BC=3", []uint8{0x01, 0x03, 0x00, 0x21, 0x00, 0x60, 0x11, 0x00, 0x61, 0xED, 0xB0}},
		{"LDDR overlapping", []uint8{0x01, 0x03, 0x00, 0x21, 0x12, 0x60, 0x11, 0x13, 0x60, 0xED, 0xB8}},
		{"CPIR hit on 3rd", []uint8{0x01, 0x05, 0x00, 0x21, 0x20, 0x60, 0x3E, 0x99, 0xED, 0xB1}},
		{"OTIR B=3", []uint8{0x06, 0x03, 0x0E, 0x10, 0x21, 0x30, 0x60, 0xED, 0xB3}},
		{"INIR B=2", []uint8{0x06, 0x02, 0x0E, 0x11, 0x21, 0x40, 0x60, 0xED, 0xB2}},
		{"DI;INC E;EI", []uint8{0xF3, 0x1C, 0xFB}},
		{"EI", []uint8{0xFB}},
		{"DI", []uint8{0xF3}},
		{"EX AF,AF';EXX", []uint8{0x08, 0xD9}},
		{"JR +1", []uint8{0x18, 0x01, 0x76}},
		{"NEG", []uint8{0xED, 0x44}},
		{"LD A,I", []uint8{0xED, 0x57}},
	}
}

type c07Kind struct {
	name string
	im   int
	i    uint8
	mk   func() *z80.Interrupt
	nmi  bool
	len  int // bytes of mode-0 data
}

func c07Kinds() []c07Kind {
	return []c07Kind{
		{"NMI", 1, 0x20, z80.NMIInterrupt, true, 0},
		{"IM1", 1, 0x20, z80.IM1Interrupt, false, 0},
		{"IM2 vec 40", 2, 0x20, func() *z80.Interrupt { return z80.IM2Interrupt(0x40) }, false, 0},
		{"IM2 vec FE I=FF", 2, 0xFF, func() *z80.Interrupt { return z80.IM2Interrupt(0xFE) }, false, 0},
		{"IM0 RST 38", 0, 0x20, func() *z80.Interrupt { return z80.IM0Interrupt(0xFF) }, false, 1},
		{"IM0 RST 10", 0, 0x20, func() *z80.Interrupt { return z80.IM0Interrupt(0xD7) }, false, 1},
		{"IM0 CALL 0300", 0, 0x20, func() *z80.Interrupt { return z80.IM0Interrupt(0xCD, 0x00, 0x03) }, false, 3},
		// mode 1 ignores whatever the device drives on the bus: the dispatch is 0038h all the same
		{"IM1 with a bus byte", 1, 0x20, func() *z80.Interrupt { return &z80.Interrupt{Type: z80.IMType, Data: []uint8{0x81}} }, false, 0},
	}
}

// handler: PUSH AF; PUSH HL; LD HL,cnt; INC (HL); POP HL; POP AF; EI; RETI  (NMI: no EI, RETN)
var c07HandlerINT = []uint8{0xF5, 0xE5, 0x21, uint8(c07Cnt & 0xFF), uint8(c07Cnt >> 8), 0x34, 0xE1, 0xF1, 0xFB, 0xED, 0x4D}
var c07HandlerNMI = []uint8{0xF5, 0xE5, 0x21, uint8(c07Cnt & 0xFF), uint8(c07Cnt >> 8), 0x34, 0xE1, 0xF1, 0xED, 0x45}

type c07Case struct {
	Frags []int    `json:"fragments"`
	Names []string `json:"names,omitempty"`
	IFF   bool     `json:"iff_enabled"`
	Kind  int      `json:"kind"`
	KindN string   `json:"kind_name,omitempty"`
	J     int      `json:"inject_before_step"`
	Kind2 int      `json:"kind2"`
	J2    int      `json:"inject2_before_step"` // -1 = none
	R0    int      `json:"r0,omitempty"`        // initial refresh register + 1 (0: the base vector's)
	// Mid: the (first) request is not raised between two Steps but by a device from inside the first memory
	// callback of Step J (the opcode fetch): the instruction executes, the request is accepted at the next boundary
	Mid bool `json:"raised_from_the_opcode_fetch,omitempty"`
	Salt  uint32   `json:"salt"`
}

type c07Runner struct {
	cpu   z80.CPU
	mem   *obs.Mem
	io    *obs.IO
	base  *c07Trace
	frags []c07Frag
	kinds []c07Kind

	lastWasEI bool
	haltAddr  uint16
}

type c07Trace struct {
	steps  int
	iff1   []bool   // IFF1 before Step j
	pcs    []uint16 // PC before Step j
	prevEI []bool   // the Step before j executed EI
	final  refz80.State
	mem    *obs.Mem
	ports  []obs.PortAccess
}

func newC07Runner(bg *[65536]uint8) *c07Runner {
	r := &c07Runner{mem: obs.NewMem(bg), io: &obs.IO{}, frags: c07Frags(), kinds: c07Kinds()}
	r.mem.Limit = 500000 // deterministic watchdog (a whole run makes < 10^4 accesses)
	r.cpu.Memory = r.mem
	r.cpu.IO = r.io
	r.base = &c07Trace{mem: obs.NewMem(bg)}
	return r
}

func (r *c07Runner) load(cs *c07Case) {
	m := r.mem
	m.Reset()
	k := &r.kinds[cs.Kind]
	pc := uint16(c07Code)
	for _, f := range cs.Frags {
		m.Poke(pc, r.frags[f].code...)
		pc += uint16(len(r.frags[f].code))
	}
	m.Poke(pc, 0x76) // HALT
	r.haltAddr = pc
	r.lastWasEI = false
	m.Poke(c07Sub, 0x0C, 0xC9)
	m.Poke(0x0038, c07HandlerINT...)
	m.Poke(0x0010, c07HandlerINT...)
	m.Poke(c07CallTgt, c07HandlerINT...)
	m.Poke(c07IM2a, c07HandlerINT...)
	m.Poke(c07IM2b, c07HandlerINT...)
	m.Poke(0x0066, c07HandlerNMI...)
	m.Poke(0x2040, uint8(c07IM2a&0xFF), uint8(c07IM2a>>8))
	m.Poke(0xFFFE, uint8(c07IM2b&0xFF), uint8(c07IM2b>>8))
	m.Poke(c07Cnt, 0)
	m.Poke(0x6022, 0x99) // CPIR: hit on the 3rd byte
	m.Poke(0x6020, 0x11, 0x22)
	r.io.Reset()
	r.io.X, r.io.Y = 0x5A, 0x35
	base := baseVector(3)
	s := base.S
	s.PC, s.SP, s.I, s.IM = c07Code, c07SP, k.i, k.im
	s.IFF1, s.IFF2 = cs.IFF, cs.IFF
	s.IY = 0x6050
	if cs.R0 > 0 {
		s.R = uint8(cs.R0 - 1)
	}
	toCPU(&s, &r.cpu)
	r.cpu.Interrupt = nil
	r.cpu.HALT = false
}

const c07MaxSteps = 400

// undisturbed runs the program without requests and records the trace.
func (r *c07Runner) undisturbed(cs *c07Case) error {
	r.load(cs)
	t := r.base
	t.iff1, t.pcs, t.prevEI = t.iff1[:0], t.pcs[:0], t.prevEI[:0]
	halts := 0
	prevEI := false
	for j := 0; j < c07MaxSteps; j++ {
		t.iff1 = append(t.iff1, r.cpu.IFF1)
		t.pcs = append(t.pcs, r.cpu.PC)
		t.prevEI = append(t.prevEI, prevEI)
		if halts == 3 {
			t.steps = j
			t.final = fromCPU(&r.cpu)
			t.mem.CopyFrom(r.mem)
			t.ports = append(t.ports[:0], r.io.Log...)
			return nil
		}
		prevEI = r.mem.Peek(r.cpu.PC) == 0xFB
		if p := c02Step(&r.cpu); p != nil {
			return fmt.Errorf("panic in undisturbed run: %v", p)
		}
		if r.cpu.HALT {
			halts++ // parked: two more boundaries on the HALT are explored
		}
	}
	return fmt.Errorf("program did not halt within %d Steps", c07MaxSteps)
}

// disturbed runs the program with the injections of cs. Returns diff, signature.
func (r *c07Runner) disturbed(cs *c07Case) ([]string, string) {
	t := r.base
	r.load(cs)
	k := &r.kinds[cs.Kind]
	type pendingReq struct {
		obj  *z80.Interrupt
		kind *c07Kind
		j    int
	}
	var pend *pendingReq
	accepted, raised, overwritten := 0, 0, 0
	sig := ""
	var d []string
	quiet := 0
	for j := 0; j < c07MaxSteps*3; j++ {
		if cs.Mid && j == cs.J {
			kk := k
			fired := false
			r.mem.Hook = func(bool, uint16) {
				if !fired {
					fired = true
					pend = &pendingReq{obj: kk.mk(), kind: kk, j: j}
					r.cpu.Interrupt = pend.obj
					raised++
				}
			}
		} else if j == cs.J || j == cs.J2 {
			kk := k
			if j == cs.J2 && j != cs.J {
				kk = &r.kinds[cs.Kind2]
			}
			if r.cpu.Interrupt != nil {
				overwritten++
			}
			pend = &pendingReq{obj: kk.mk(), kind: kk, j: j}
			r.cpu.Interrupt = pend.obj
			raised++
		}
		prePC, preSP, preIFF1 := r.cpu.PC, r.cpu.SP, r.cpu.IFF1
		had := r.cpu.Interrupt
		prevWasEI := r.lastWasEI
		opAtPC := r.mem.Peek(prePC)
		r.mem.ClearLog()
		if p := c02Step(&r.cpu); p != nil {
			r.mem.Hook = nil
			return []string{fmt.Sprintf("panic at Step %d: %v", j, p)}, ""
		}
		r.mem.Hook = nil
		if cs.Mid && j == cs.J {
			had = nil // raised during this Step: nothing to judge before the next boundary
			if r.cpu.Interrupt == nil && pend != nil {
				// (a HALT or similar without any memory access cannot happen: every Step fetches)
				d = append(d, fmt.Sprintf("the request a device raised from the opcode fetch of Step %d is gone after that Step", j))
			}
		}
		r.lastWasEI = !(had != nil && r.cpu.Interrupt == nil) && opAtPC == 0xFB
		if had != nil && r.cpu.Interrupt == nil {
			accepted++
			kk := pend.kind
			// the request must be accepted at the first acceptable boundary
			if !kk.nmi && !preIFF1 {
				d = append(d, fmt.Sprintf("maskable request accepted at Step %d although IFF1 was clear", j))
			}
			pushed := uint16(r.mem.Peek(r.cpu.SP)) | uint16(r.mem.Peek(r.cpu.SP+1))<<8
			if r.cpu.SP != preSP-2 {
				d = append(d, fmt.Sprintf("acceptance at Step %d: SP %04X -> %04X", j, preSP, r.cpu.SP))
			} else if pushed != prePC {
				if kk.len > 0 && pushed == prePC+uint16(kk.len) {
					// known finding: mode 0 pushes PC + bytes consumed from the request data.
					// Repair the frame so that the rest of the differential oracle stays alive.
					sig = "im0-resume-address"
					r.mem.Poke(r.cpu.SP, uint8(prePC), uint8(prePC>>8))
				} else {
					d = append(d, fmt.Sprintf("acceptance of %s at Step %d: pushed return address %04X, the first instruction not yet executed is at %04X", kk.name, j, pushed, prePC))
				}
			}
			pend = nil
		} else if had != nil {
			// refused: must really be unacceptable (or directly after EI, where one instruction of delay is allowed)
			if pend.kind.nmi {
				d = append(d, fmt.Sprintf("NMI pending before Step %d was not accepted", j))
			} else if preIFF1 && !prevWasEI {
				d = append(d, fmt.Sprintf("maskable request pending before Step %d with IFF1 set was not accepted", j))
			}
			if r.cpu.Interrupt != had {
				d = append(d, "pending request object changed")
			}
		}
		if len(d) > 0 {
			return d, ""
		}
		// quiescent: parked on the program's final HALT, nothing acceptable pending, all injections done
		if j >= cs.J && j >= cs.J2 && r.cpu.HALT && r.cpu.PC == r.haltAddr &&
			(r.cpu.Interrupt == nil || (!pend.kind.nmi && !r.cpu.IFF1)) {
			quiet++
			if quiet >= 3 {
				break
			}
		} else {
			quiet = 0
		}
	}
	if quiet < 3 {
		return []string{fmt.Sprintf("interrupted run did not come to rest on the final HALT within %d Steps (PC=%04X)", c07MaxSteps*3, r.cpu.PC)}, ""
	}
	// ---- compare with the undisturbed run ----
	got := fromCPU(&r.cpu)
	exp := t.final
	exp.R = exp.R&0x80 | got.R&0x7F // the handler's fetches advance the 7-bit counter; bit 7 is the program's
	if got != exp {
		d = append(d, fmt.Sprintf("final state differs: undisturbed %v ; interrupted %v", stateMap(&exp), stateMap(&got)))
	}
	cnt := int(r.mem.Peek(c07Cnt))
	if cnt != accepted {
		d = append(d, fmt.Sprintf("handler ran %d times, %d requests were accepted", cnt, accepted))
	}
	stillPending := 0
	if r.cpu.Interrupt != nil {
		stillPending = 1
	}
	if accepted+stillPending+overwritten != raised {
		d = append(d, fmt.Sprintf("requests: raised %d, accepted %d, still pending %d, overwritten by the driver %d", raised, accepted, stillPending, overwritten))
	}
	if !obs.SamePorts(t.ports, r.io.Log) {
		d = append(d, fmt.Sprintf("port logs differ: undisturbed %s interrupted %s", fmtPorts(t.ports), fmtPorts(r.io.Log)))
	}
	// memory except the dead stack area below the final SP and the counter
	dead := func(a uint16) bool { return a == c07Cnt || (a < got.SP && a >= got.SP-64) }
	for _, set := range [][]uint16{r.mem.Dirty(), t.mem.Dirty()} {
		for _, a := range set {
			if !dead(a) && r.mem.Peek(a) != t.mem.Peek(a) {
				d = append(d, fmt.Sprintf("memory[%04X]: undisturbed %02X interrupted %02X", a, t.mem.Peek(a), r.mem.Peek(a)))
				break
			}
		}
	}
	if len(d) == 0 {
		if sig != "" {
			return []string{"mode-0 acceptance pushed PC + length of the supplied instruction instead of PC"}, sig
		}
		return nil, ""
	}
	return d, ""
}

func checkC07(c *Ctx) {
	frags := c07Frags()
	kinds := c07Kinds()
	maxLen := 2
	if !c.Quick() {
		maxLen = 3
	}
	var progs [][]int
	var gen func(cur []int)
	gen = func(cur []int) {
		if len(cur) > 0 {
			progs = append(progs, append([]int{}, cur...))
		}
		if len(cur) == maxLen {
			return
		}
		for f := range frags {
			gen(append(cur, f))
		}
	}
	gen(nil)
	c.Rule = fmt.Sprintf("all %d programs of 1..%d fragments over a %d-fragment alphabet (ALU, loads, stores, IX/IY, stack, CALL/RET, DJNZ loop, LDIR/LDDR/CPIR/OTIR/INIR, DI/EI sections, exchanges, jumps, NEG, LD A,I) + HALT x initial IFF {enabled, disabled} x every dynamic Step boundary j = 0..N+2 (two boundaries parked on HALT) x 8 request kinds (NMI, IM1, IM2 vec 40, IM2 vec FE with I=FF, IM0 RST 38, IM0 RST 10, IM0 CALL nn, IM1 with a data byte on the bus) x initial refresh register (quick 8 values, thorough all 256; bit 7 of R must come out as in the undisturbed run); every boundary again with the request raised by a device from inside the opcode fetch of Step j (accepted at the next boundary); thorough adds pairs j1<j2 of (kind, NMI|IM1) incl. requests raised inside the first handler. Oracle: interrupted vs undisturbed run (no model). Non-trivial = a request was raised at a boundary that exists in the run (all cases; counted), accepted ones counted separately.", len(progs), maxLen, len(frags))
	c.Bound = fmt.Sprintf("programs <=%d fragments; 1 injection (thorough: 2)", maxLen)
	bg := obsBackground(c)
	// initial refresh-register values (+1; 0 = the base vector's): the counter wraps at different boundaries
	r0s := []int{0, 0x61, 0x69, 0x71, 0x75, 0x79, 0x7D, 0xFF}
	if !c.Quick() {
		r0s = []int{0}
		for v := 0; v < 256; v += 2 {
			r0s = append(r0s, v+1, (v^0x81)+1)
		}
	}
	runners := make([]*c07Runner, 16)
	var evals, steps, states [16 * 8]int64
	var capped int32
	parallel(int64(len(progs)), 1, 16, func(wi int, lo, hi int64) {
		if runners[wi] == nil {
			runners[wi] = newC07Runner(bg)
		}
		r := runners[wi]
		var ev, st int64
		defer func() { evals[wi*8] += ev; states[wi*8] += st }()
		for pi := lo; pi < hi; pi++ {
			for _, iff := range []bool{true, false} {
				for kr := 0; kr < len(kinds)*len(r0s); kr++ {
					ki := kr % len(kinds)
					cs := c07Case{Frags: progs[pi], IFF: iff, Kind: ki, J2: -1, R0: r0s[kr/len(kinds)], Salt: c.Salt}
					if err := r.undisturbed(&cs); err != nil {
						c.Report("c07/transparent:setup", pi, "", cs, []string{err.Error()})
						continue
					}
					st += int64(r.base.steps)
					report := func(d []string, sig string) {
						cs2 := cs
						for _, f := range cs.Frags {
							cs2.Names = append(cs2.Names, frags[f].name)
						}
						cs2.KindN = kinds[ki].name
						key := "c07/transparent:" + kinds[ki].name
						c.Report(key, pi*100000+int64(cs.J)*100+int64(ki), sig, cs2, cloneStrings(append([]string{fmt.Sprintf("program %v + HALT, IFF=%v, %s raised before Step %d (second: kind %d before Step %d)", cs2.Names, iff, kinds[ki].name, cs.J, cs.Kind2, cs.J2)}, d...)))
					}
					for j := 0; j <= r.base.steps; j++ {
						cs.J, cs.J2 = j, -1
						d, sig := r.disturbed(&cs)
						ev++
						if d != nil {
							report(d, sig)
							if sig == "" {
								break
							}
						}
					}
					if cs.R0 == 0 {
						cs.Mid = true
						for j := 0; j <= r.base.steps; j++ {
							cs.J, cs.J2 = j, -1
							d, sig := r.disturbed(&cs)
							ev++
							if d != nil {
								report(d, sig)
								if sig == "" {
									break
								}
							}
						}
						cs.Mid = false
					}
					if !c.Quick() && len(progs[pi]) <= 2 && cs.R0 == 0 {
						// two injections: second kind NMI or IM1-like (same mode), any later dynamic step
						for j := 0; j <= r.base.steps; j++ {
							for j2 := j + 1; j2 <= r.base.steps+12; j2++ {
								for _, k2 := range []int{0, ki} {
									if kinds[ki].nmi && kinds[k2].nmi {
										// an NMI inside an NMI handler overwrites the saved IFF1 on real
										// hardware too: not transparent by design, outside the statement
										continue
									}
									cs.J, cs.J2, cs.Kind2 = j, j2, k2
									d, sig := r.disturbed(&cs)
									ev++
									if d != nil {
										report(d, sig)
										if sig == "" {
											return
										}
									}
								}
							}
						}
					}
				}
			}
			if c.TimeUp() {
				if atomic.CompareAndSwapInt32(&capped, 0, 1) {
					c.Capped("time cap reached")
				}
				return
			}
		}
	}, func() bool { return atomic.LoadInt32(&capped) != 0 })
	for i := range evals {
		c.Evaluations += evals[i]
		c.States += states[i]
		c.Transitions += steps[i]
	}
	c.Nontrivial = c.Evaluations
	c.Transitions = c.Evaluations // one deviating execution per evaluation
	c.Traces = c.Evaluations
	c.Exhaustive = true
	c.Set("programs", len(progs))
	c.Sample(c07Case{Frags: []int{8, 13}, Names: []string{frags[8].name, frags[13].name}, IFF: false, Kind: 2, KindN: kinds[2].name, J: 7, J2: -1})
	c.Sample(c07Case{Frags: []int{6}, Names: []string{frags[6].name}, IFF: true, Kind: 0, KindN: kinds[0].name, J: 1, J2: -1})
	c.Assume("differential oracle: handler = PUSH AF; PUSH HL; LD HL,cnt; INC (HL); POP HL; POP AF; EI; RETI (NMI: RETN without EI)")
	c.Assume("a request raised directly after EI may be accepted at once or one instruction later")
	c.Assume("when the known mode-0 return-address finding is recognised the frame is repaired by the harness so that the remaining comparison stays meaningful")
}

func replayC07(c *Ctx, raw []byte) []string {
	var cs c07Case
	if err := json.Unmarshal(raw, &cs); err != nil {
		return []string{"bad replay file"}
	}
	r := newC07Runner(obs.NewBackground(cs.Salt))
	if err := r.undisturbed(&cs); err != nil {
		return []string{err.Error()}
	}
	d, _ := r.disturbed(&cs)
	return cloneStrings(d)
}
