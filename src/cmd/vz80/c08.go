package main

import (
	"context"
	"encoding/json"
	"fmt"
	"sync/atomic"

	z80 "github.com/koron-go/z80"
	"github.com/koron-go/z80/internal/verif/obs"
)

// C08: Run is exactly repeated Step and stops only at a breakpoint or an
// executed HALT. BFS over call histories with a Step-driven twin: programs x
// all subsets of candidate breakpoints (plus nil map) x Run;Run;Run;Run x at
// most one interrupt raised from inside a device callback at every access
// index (deviation bound 1). After every Run return the CPU under test and the
// twin must agree on error, States, HALT, pending request, the exact access
// sequence (hence the number of Steps), memory and port log.
func init() {
	register("C08", checkC08)
	replayers["c08/run"] = replayC08
}

type c08Prog struct {
	name string
	pc   uint16
	code []Poke
	bps  []uint16 // candidate breakpoint addresses
	iff  bool
}

func c08Progs() []c08Prog {
	hINT := Poke{0x0038, []uint8{0x0C, 0xFB, 0xED, 0x4D}} // INC C; EI; RETI
	hNMI := Poke{0x0066, []uint8{0x0C, 0xED, 0x45}}       // INC C; RETN
	return []c08Prog{
		{"straight line", 0x0100, []Poke{{0x0100, []uint8{0x00, 0x3C, 0x06, 0x07, 0x76}}, hINT, hNMI}, []uint16{0x0100, 0x0101, 0x0102, 0x0103, 0x0104}, true},
		{"HALT first", 0x0100, []Poke{{0x0100, []uint8{0x76, 0x00}}, hINT, hNMI}, []uint16{0x0100, 0x0101, 0x0038, 0x0066}, true},
		{"3-byte instruction, breakpoint inside", 0x0100, []Poke{{0x0100, []uint8{0x21, 0x34, 0x12, 0x76}}, hINT, hNMI}, []uint16{0x0100, 0x0101, 0x0102, 0x0103}, false},
		{"wrap FFFF->0000 into HALT", 0xFFFD, []Poke{{0xFFFD, []uint8{0x00, 0x3C, 0x00}}, {0x0000, []uint8{0x76}}, hINT, hNMI}, []uint16{0xFFFD, 0xFFFE, 0xFFFF, 0x0000, 0x0001}, false},
		{"DJNZ loop, breakpoint on the loop head", 0x0100, []Poke{{0x0100, []uint8{0x06, 0x03, 0x00, 0x10, 0xFD, 0x76}}, hINT, hNMI}, []uint16{0x0100, 0x0102, 0x0103, 0x0105}, true},
		{"LDIR, breakpoint on its own address", 0x0100, []Poke{{0x0100, []uint8{0x01, 0x03, 0x00, 0x21, 0x00, 0x60, 0x11, 0x00, 0x61, 0xED, 0xB0, 0x76}}, hINT, hNMI}, []uint16{0x0100, 0x0109, 0x010A, 0x010B}, true},
		{"CALL/RET", 0x0100, []Poke{{0x0100, []uint8{0xCD, 0x00, 0x02, 0x76}}, {0x0200, []uint8{0x3C, 0xC9}}, hINT, hNMI}, []uint16{0x0100, 0x0103, 0x0200, 0x0201}, false},
		{"EI + I/O", 0x0100, []Poke{{0x0100, []uint8{0xFB, 0xDB, 0x10, 0xD3, 0x11, 0x76}}, hINT, hNMI}, []uint16{0x0100, 0x0101, 0x0103, 0x0105, 0x0038}, false},
		{"DI;HALT", 0x0100, []Poke{{0x0100, []uint8{0xF3, 0x76}}, hINT, hNMI}, []uint16{0x0100, 0x0101, 0x0038, 0x0066}, true},
		{"prefix-only tail", 0x0100, []Poke{{0x0100, []uint8{0xDD, 0xDD, 0xFD, 0x00, 0xED, 0x00, 0x76}}, hINT, hNMI}, []uint16{0x0100, 0x0101, 0x0102, 0x0104, 0x0106}, false},
		{"JP over a HALT", 0x0100, []Poke{{0x0100, []uint8{0xC3, 0x04, 0x01, 0x76, 0x3C, 0x76}}, hINT, hNMI}, []uint16{0x0100, 0x0103, 0x0104, 0x0105}, true},
		{"HALT at FFFF", 0xFFFE, []Poke{{0xFFFE, []uint8{0x00, 0x76}}, {0x0000, []uint8{0x3C, 0x76}}, hINT, hNMI}, []uint16{0xFFFE, 0xFFFF, 0x0000, 0x0001}, false},
		{"HALT at 0000 reached by a jump", 0x0100, []Poke{{0x0100, []uint8{0xC3, 0x00, 0x00}}, {0x0000, []uint8{0x76, 0x3C}}, hINT, hNMI}, []uint16{0x0100, 0x0000, 0x0001, 0xFFFF}, true},
		{"HALT;HALT", 0x0100, []Poke{{0x0100, []uint8{0x76, 0x76}}, hINT, hNMI}, []uint16{0x0100, 0x0101}, false},
		// idioms that a loop in Run might be tempted to special-case
		{"DJNZ $ delay loop (B=5)", 0x0100, []Poke{{0x0100, []uint8{0x06, 0x05, 0x10, 0xFE, 0x76}}, hINT, hNMI}, []uint16{0x0102, 0x0104}, true},
		{"DJNZ $ delay loop (B=0: 256 passes)", 0x0100, []Poke{{0x0100, []uint8{0x06, 0x00, 0x10, 0xFE, 0x76}}, hINT, hNMI}, []uint16{0x0102, 0x0104}, false},
		{"DEC A; JR NZ,$-1 delay loop", 0x0100, []Poke{{0x0100, []uint8{0x3E, 0x04, 0x3D, 0x20, 0xFD, 0x76}}, hINT, hNMI}, []uint16{0x0102, 0x0105}, true},
		{"LDIR of 40 bytes", 0x0100, []Poke{{0x0100, []uint8{0x01, 0x28, 0x00, 0x21, 0x00, 0x60, 0x11, 0x00, 0x61, 0xED, 0xB0, 0x76}}, hINT, hNMI}, []uint16{0x0109, 0x010B}, true},
		{"LDIR of 20 bytes across FFFF", 0x0100, []Poke{{0x0100, []uint8{0x01, 0x14, 0x00, 0x21, 0xF8, 0xFF, 0x11, 0x00, 0x61, 0xED, 0xB0, 0x76}}, hINT, hNMI}, []uint16{0x0109, 0x010B}, false},
		{"LDDR of 20 bytes, overlapping", 0x0100, []Poke{{0x0100, []uint8{0x01, 0x14, 0x00, 0x21, 0x20, 0x60, 0x11, 0x24, 0x60, 0xED, 0xB8, 0x76}}, hINT, hNMI}, []uint16{0x0109, 0x010B}, true},
		{"CPIR over 30 bytes, no hit", 0x0100, []Poke{{0x0100, []uint8{0x01, 0x1E, 0x00, 0x21, 0x00, 0x70, 0x3E, 0x00, 0xED, 0xB1, 0x76}}, {0x7000, []uint8{1, 2, 3, 4, 5, 6, 7, 8, 9, 10, 11, 12, 13, 14, 15, 16, 17, 18, 19, 20, 21, 22, 23, 24, 25, 26, 27, 28, 29, 30}}, hINT, hNMI}, []uint16{0x0108, 0x010A}, false},
		{"OTIR of 20 bytes; INIR of 20 bytes", 0x0100, []Poke{{0x0100, []uint8{0x01, 0x10, 0x14, 0x21, 0x00, 0x60, 0xED, 0xB3, 0x06, 0x14, 0xED, 0xB2, 0x76}}, hINT, hNMI}, []uint16{0x0106, 0x010A, 0x010C}, true},
	}
}

type c08Case struct {
	Prog   int      `json:"program"`
	Name   string   `json:"name,omitempty"`
	BPs    []uint16 `json:"breakpoints"`
	NilMap bool     `json:"nil_map"`
	Runs   int      `json:"runs"`
	J      int      `json:"raise_at_access"` // -1 = never
	NMI    bool     `json:"nmi"`
	J2     int      `json:"raise2_at_access,omitempty"` // second request (thorough); 0 = none
	NMI2   bool     `json:"nmi2,omitempty"`
	Stale  bool     `json:"stale_halt_flag"`
	// Ctx: the context Run is given: 0 context.Background(); 1 a WithCancel context nobody cancels while Run
	// executes; 2 a WithValue child of Background (Done() == nil, not the Background singleton)
	Ctx int `json:"context_kind,omitempty"`
	// BPOp: the embedder's debugger edits the breakpoints from inside the device callback at access BPAt:
	// 1 installs the map (the field was nil when Run was entered); 2 sets the field to nil; 3 adds the
	// addresses to the (initially empty, non-nil) map; 4 swaps: deletes BPs[0] and inserts SwapIn (the size of
	// the map does not change). Fill > 0: the map additionally holds that many addresses the program never
	// reaches (7000h...), a large set.
	BPOp   int    `json:"breakpoint_edit,omitempty"`
	BPAt   int    `json:"breakpoint_edit_at_access,omitempty"`
	SwapIn uint16 `json:"breakpoint_swapped_in,omitempty"`
	Fill   int    `json:"unreached_breakpoints,omitempty"`
	// Kind/Kind2 (if non-zero) override NMI/NMI2: 1 NMI, 2 IM1, 3 mode-0 request whose instruction is HALT,
	// 4 mode-0 RST 38, 5 mode-0 INC A. Kinds 3..5 run the CPU in interrupt mode 0.
	Kind  int `json:"request_kind,omitempty"`
	Kind2 int `json:"request2_kind,omitempty"`
	// Pre: a request of this kind is already pending when the first Run is entered
	Pre int `json:"pending_on_entry_kind,omitempty"`
	// Swaps: between two Run calls the embedder edits the breakpoint map in place
	Swaps []c08Swap `json:"breakpoint_swaps,omitempty"`
	Salt  uint32    `json:"salt"`
}

type c08Key struct{}

// c08Swap: after Run number AfterRun (1-based) the address Del is deleted from the map and Add inserted
// (the map object and its size stay the same); Fresh: the map is replaced by a new object with the same
// contents instead.
type c08Swap struct {
	AfterRun int    `json:"after_run"`
	Del      uint16 `json:"delete"`
	Add      uint16 `json:"add"`
	Fresh    bool   `json:"new_map_object,omitempty"`
}

func c08Req(kind int) *z80.Interrupt {
	switch kind {
	case 1:
		return z80.NMIInterrupt()
	case 3:
		return z80.IM0Interrupt(0x76)
	case 4:
		return z80.IM0Interrupt(0xFF)
	case 5:
		return z80.IM0Interrupt(0x3C)
	}
	return z80.IM1Interrupt()
}

type c08Side struct {
	cpu         z80.CPU
	mem         *obs.Mem
	io          *obs.IO
	n           int
	j           int
	nmi         bool
	j2          int
	nmi2        bool
	kind, kind2 int
	bpOp        int
	bpAt        int
	swapIn      uint16
	bps         []uint16
	// edited: the callback has performed the breakpoint edit
	edited bool
}

func newC08Side(bg *[65536]uint8) *c08Side {
	s := &c08Side{mem: obs.NewMem(bg), io: &obs.IO{}}
	s.cpu.Memory = s.mem
	s.cpu.IO = s.io
	hook := func() {
		if s.n == s.j {
			s.cpu.Interrupt = c08Req(s.kind)
		}
		if s.j2 > 0 && s.n == s.j2 {
			s.cpu.Interrupt = c08Req(s.kind2)
		}
		if s.bpOp != 0 && s.n == s.bpAt && !s.edited {
			s.edited = true
			switch s.bpOp {
			case 1:
				m := map[uint16]struct{}{}
				for _, b := range s.bps {
					m[b] = struct{}{}
				}
				s.cpu.BreakPoints = m
			case 2:
				s.cpu.BreakPoints = nil
			case 3:
				for _, b := range s.bps {
					s.cpu.BreakPoints[b] = struct{}{}
				}
			case 4:
				delete(s.cpu.BreakPoints, s.bps[0])
				s.cpu.BreakPoints[s.swapIn] = struct{}{}
			}
		}
		s.n++
	}
	s.mem.Hook = func(bool, uint16) { hook() }
	s.io.Hook = func(bool, uint8) { hook() }
	s.mem.Limit = 100000
	return s
}

func (s *c08Side) load(p *c08Prog, cs *c08Case) {
	s.mem.Reset()
	for _, pk := range p.code {
		s.mem.Poke(pk.Addr, pk.Data...)
	}
	s.io.Reset()
	s.io.X, s.io.Y = 0x21, 0x35
	base := baseVector(0)
	st := base.S
	st.PC, st.SP, st.IM = p.pc, 0xF000, 1
	if cs.Kind >= 3 || cs.Kind2 >= 3 || cs.Pre >= 3 {
		st.IM = 0
	}
	st.IFF1, st.IFF2 = p.iff, p.iff
	st.Halt = cs.Stale
	toCPU(&st, &s.cpu)
	s.cpu.Interrupt = nil
	s.cpu.BreakPoints = nil
	if !cs.NilMap && cs.BPOp != 1 {
		s.cpu.BreakPoints = map[uint16]struct{}{}
		if cs.BPOp != 3 {
			for _, b := range cs.BPs {
				s.cpu.BreakPoints[b] = struct{}{}
			}
		}
	}
	for i := 0; i < cs.Fill && s.cpu.BreakPoints != nil; i++ {
		s.cpu.BreakPoints[uint16(0x7000+i*3)] = struct{}{}
	}
	s.swapIn = cs.SwapIn
	s.n, s.j, s.nmi, s.j2, s.nmi2 = 0, cs.J, cs.NMI, cs.J2, cs.NMI2
	s.kind, s.kind2 = cs.Kind, cs.Kind2
	if s.kind == 0 {
		s.kind = 2
		if cs.NMI {
			s.kind = 1
		}
	}
	if s.kind2 == 0 {
		s.kind2 = 2
		if cs.NMI2 {
			s.kind2 = 1
		}
	}
	if cs.Pre > 0 {
		s.cpu.Interrupt = c08Req(cs.Pre)
	}
	s.bpOp, s.bpAt, s.bps, s.edited = cs.BPOp, cs.BPAt, cs.BPs, false
}

// wantBPs: what the embedder's breakpoint field must hold now (nil map or exactly these addresses).
func (s *c08Side) wantBPs(cs *c08Case) (isNil bool, addrs []uint16) {
	switch cs.BPOp {
	case 1:
		if !s.edited {
			return true, nil
		}
		return false, cs.BPs
	case 2:
		if s.edited {
			return true, nil
		}
		return false, cs.BPs
	case 3:
		if !s.edited {
			return false, nil
		}
		return false, cs.BPs
	case 4:
		if s.edited {
			return false, append([]uint16{cs.SwapIn}, cs.BPs[1:]...)
		}
		return false, cs.BPs
	}
	return cs.NilMap, cs.BPs
}

// twinRun applies the stop rule of the statement around Step.
func twinRun(cpu *z80.CPU, maxSteps int) (err error, steps int, ok bool) {
	cpu.HALT = false
	for steps < maxSteps {
		liveStep(cpu)
		steps++
		if cpu.BreakPoints != nil {
			if _, hit := cpu.BreakPoints[cpu.PC]; hit {
				return z80.ErrBreakPoint, steps, true
			}
		}
		if cpu.HALT {
			return nil, steps, true
		}
	}
	return nil, steps, false
}

func c08One(a, b *c08Side, p *c08Prog, cs *c08Case) (d []string, totalSteps int) {
	a.load(p, cs)
	b.load(p, cs)
	cur := append([]uint16{}, cs.BPs...)
	for run := 0; run < cs.Runs; run++ {
		for _, sw := range cs.Swaps {
			if sw.AfterRun == run && run > 0 {
				for _, side := range []*c08Side{a, b} {
					if sw.Fresh {
						m := map[uint16]struct{}{}
						for k := range side.cpu.BreakPoints {
							m[k] = struct{}{}
						}
						side.cpu.BreakPoints = m
					} else {
						delete(side.cpu.BreakPoints, sw.Del)
						side.cpu.BreakPoints[sw.Add] = struct{}{}
					}
				}
				if !sw.Fresh {
					for i, x := range cur {
						if x == sw.Del {
							cur[i] = sw.Add
						}
					}
				}
			}
		}
		a.mem.ClearLog()
		b.mem.ClearLog()
		a.mem.Limit, b.mem.Limit = 100000, 100000
		var errT error
		var steps int
		var fin bool
		var panT, panR interface{}
		func() {
			defer func() { panT = recover() }()
			errT, steps, fin = twinRun(&b.cpu, 2000)
		}()
		if panT != nil {
			return []string{fmt.Sprintf("Step-driven twin panicked in Run #%d: %v", run+1, panT)}, totalSteps
		}
		if !fin {
			if cs.Kind >= 3 || cs.Kind2 >= 3 || cs.Pre >= 3 {
				// a mode-0 request resumes the program 1 byte late (C07's known finding), which can derail it for
				// good: nothing obliges Run to return then, the case is not judged
				return nil, totalSteps
			}
			return []string{"framework error: catalogue program does not terminate"}, totalSteps
		}
		totalSteps += steps
		var errR error
		func() {
			defer func() { panR = recover() }()
			ctx, release := bgCtx, func() {}
			switch cs.Ctx {
			case 1:
				ctx, release = context.WithCancel(bgCtx)
			case 2:
				ctx = context.WithValue(bgCtx, c08Key{}, 1)
			}
			defer release()
			defer c08Watch(func() string { return fmt.Sprintf("Run of catalogue program %d (case %+v); its Step-driven twin ended after %d Steps", cs.Prog, *cs, steps) })()
			errR = a.cpu.Run(ctx)
		}()
		if panR != nil {
			if _, ok := panR.(obs.Watchdog); ok {
				return []string{fmt.Sprintf("Run #%d did not return (deterministic watchdog: 100000 memory accesses; the twin stopped after %d Steps)", run+1, steps)}, totalSteps
			}
			return []string{fmt.Sprintf("Run #%d panicked: %v", run+1, panR)}, totalSteps
		}
		if errR != errT {
			d = append(d, fmt.Sprintf("Run #%d returned %v, Step-driven twin stops with %v after %d Steps", run+1, errR, errT, steps))
		}
		if a.cpu.States != b.cpu.States || a.cpu.HALT != b.cpu.HALT {
			x, y := fromCPU(&a.cpu), fromCPU(&b.cpu)
			d = append(d, fmt.Sprintf("after Run #%d: Run %v ; twin %v", run+1, stateMap(&x), stateMap(&y)))
		}
		if (a.cpu.Interrupt == nil) != (b.cpu.Interrupt == nil) {
			d = append(d, fmt.Sprintf("after Run #%d: pending request differs (Run: %v, twin: %v)", run+1, a.cpu.Interrupt != nil, b.cpu.Interrupt != nil))
		}
		if !sameLogs(a.mem, b.mem) {
			d = append(d, fmt.Sprintf("Run #%d made a different access sequence than %d Steps: Run reads %d writes %d ; twin reads %d writes %d", run+1, steps, len(a.mem.Reads), len(a.mem.Writes), len(b.mem.Reads), len(b.mem.Writes)))
		}
		if !obs.SamePorts(a.io.Log, b.io.Log) {
			d = append(d, fmt.Sprintf("port logs differ after Run #%d", run+1))
		}
		if ok, addr := a.mem.EqualContents(b.mem); !ok {
			d = append(d, fmt.Sprintf("memory[%04X] differs after Run #%d", addr, run+1))
		}
		// the breakpoint set belongs to the embedder: Run must not change it
		wantNil, want := a.wantBPs(cs)
		if len(cs.Swaps) > 0 {
			want = cur
		}
		if !wantNil && cs.Fill > 0 {
			want = append([]uint16{}, want...)
			for i := 0; i < cs.Fill; i++ {
				want = append(want, uint16(0x7000+i*3))
			}
		}
		if !wantNil {
			if a.cpu.BreakPoints == nil || len(a.cpu.BreakPoints) != len(want) {
				d = append(d, fmt.Sprintf("Run #%d changed the BreakPoints map (now %d entries, the embedder put %d)", run+1, len(a.cpu.BreakPoints), len(want)))
			} else {
				for _, bp := range want {
					if _, ok := a.cpu.BreakPoints[bp]; !ok {
						d = append(d, fmt.Sprintf("Run #%d removed breakpoint %04X from the map", run+1, bp))
					}
				}
			}
		} else if a.cpu.BreakPoints != nil {
			d = append(d, fmt.Sprintf("Run #%d replaced the nil BreakPoints map", run+1))
		}
		// properties of the stop itself
		if errR == nil && len(d) == 0 && cs.Kind != 3 && cs.Kind2 != 3 && cs.Pre != 3 {
			// (a HALT supplied by a device as mode-0 instruction leaves PC on whatever the program holds there)
			if !a.cpu.HALT || a.mem.Peek(a.cpu.PC) != 0x76 {
				d = append(d, fmt.Sprintf("Run #%d returned nil but HALT=%v and PC=%04X does not address a HALT opcode", run+1, a.cpu.HALT, a.cpu.PC))
			}
		}
		if errR == z80.ErrBreakPoint && len(d) == 0 {
			if _, hit := a.cpu.BreakPoints[a.cpu.PC]; !hit {
				d = append(d, fmt.Sprintf("Run #%d returned ErrBreakPoint at PC=%04X which is not a breakpoint", run+1, a.cpu.PC))
			}
		}
		if len(d) > 0 {
			return d, totalSteps
		}
	}
	return nil, totalSteps
}

func checkC08(c *Ctx) {
	progs := c08Progs()
	var cases []c08Case
	for pi, p := range progs {
		nb := len(p.bps)
		for mask := 0; mask < 1<<uint(nb); mask++ {
			var bps []uint16
			for i := 0; i < nb; i++ {
				if mask&(1<<uint(i)) != 0 {
					bps = append(bps, p.bps[i])
				}
			}
			cases = append(cases, c08Case{Prog: pi, BPs: bps, Runs: 4, J: -1, Salt: c.Salt})
		}
		cases = append(cases, c08Case{Prog: pi, NilMap: true, Runs: 4, J: -1, Salt: c.Salt})
		cases = append(cases, c08Case{Prog: pi, NilMap: true, Runs: 4, J: -1, Stale: true, Salt: c.Salt})
		cases = append(cases, c08Case{Prog: pi, BPs: []uint16{p.pc}, Runs: 4, J: -1, Stale: true, Salt: c.Salt})
	}
	// the same configurations under the other context kinds
	for i, n := 0, len(cases); i < n; i++ {
		for kind := 1; kind <= 2; kind++ {
			cs := cases[i]
			cs.Ctx = kind
			cases = append(cases, cs)
		}
	}
	// between two Runs the embedder edits the breakpoint map in place: one address swapped for another (the
	// map object and its size stay the same), or the map replaced by a new object with the same contents
	for pi, p := range progs {
		for _, del := range p.bps {
			for _, add := range p.bps {
				if del == add {
					continue
				}
				for after := 1; after <= 2; after++ {
					cases = append(cases, c08Case{Prog: pi, BPs: []uint16{del}, Runs: 4, J: -1, Swaps: []c08Swap{{AfterRun: after, Del: del, Add: add}}, Salt: c.Salt})
					cases = append(cases, c08Case{Prog: pi, BPs: []uint16{del, 0x4444}, Runs: 4, J: -1, Swaps: []c08Swap{{AfterRun: after, Del: del, Add: add}, {AfterRun: after + 1, Del: add, Add: del}}, Salt: c.Salt})
				}
			}
			cases = append(cases, c08Case{Prog: pi, BPs: []uint16{del}, Runs: 4, J: -1, Swaps: []c08Swap{{AfterRun: 1, Fresh: true}, {AfterRun: 2, Del: del, Add: p.bps[0] + 1}}, Salt: c.Salt})
		}
	}
	// a callback swaps one breakpoint for another in place (the size of the map does not change), in a small
	// and in a large set; and the static configurations again with a large set
	for pi, p := range progs {
		for _, fill := range []int{0, 40} {
			for _, del := range p.bps {
				for _, add := range p.bps {
					if del == add {
						continue
					}
					for at := 0; at < 24; at++ {
						cases = append(cases, c08Case{Prog: pi, BPs: []uint16{del}, Runs: 4, J: -1, BPOp: 4, BPAt: at, SwapIn: add, Fill: fill, Ctx: at % 2, Salt: c.Salt})
					}
				}
			}
		}
		for mask := 1; mask < 1<<uint(len(p.bps)); mask++ {
			var bps []uint16
			for i := range p.bps {
				if mask&(1<<uint(i)) != 0 {
					bps = append(bps, p.bps[i])
				}
			}
			cases = append(cases, c08Case{Prog: pi, BPs: bps, Runs: 4, J: -1, Fill: 40, Salt: c.Salt})
		}
	}
	nEdit := 0
	for pi, p := range progs {
		// the debugger edits the breakpoints from inside a device callback, at every access index
		for op := 1; op <= 3; op++ {
			for at := 0; at < 40; at++ {
				for _, bps := range [][]uint16{p.bps, p.bps[len(p.bps)-1:], p.bps[1:2]} {
					cases = append(cases, c08Case{Prog: pi, BPs: bps, Runs: 4, J: -1, BPOp: op, BPAt: at, Ctx: at % 2, Salt: c.Salt})
					nEdit++
				}
			}
		}
	}
	c.Rule = fmt.Sprintf("%d terminating programs (straight line; HALT first; multi-byte instruction with a breakpoint inside; code wrapping FFFF->0000 into a HALT; DJNZ loop with a breakpoint on its head; LDIR with a breakpoint on itself; CALL/RET; EI + IN/OUT with handlers; DI;HALT; prefix-only tail; JP; HALT at FFFF; HALT at 0000; HALT;HALT) x all subsets of each program's 2..5 candidate breakpoint addresses + nil map + stale halted indication (%d configurations) x history Run;Run;Run;Run x {no request; NMI, IM1, a mode-0 request whose instruction is HALT, mode-0 RST 38, mode-0 INC A raised from inside the memory/port callback at every access index j of the history, or already pending when the first Run is entered}; breakpoint maps edited in place between two Runs (one address swapped for another, the map object and its size unchanged; the map replaced by an equal new object). Contexts: Background, a WithCancel context nobody cancels, a WithValue child. Breakpoint edits from inside a device callback at every access index 0..39 (install the map when the field was nil on entry; set the field to nil; add addresses to an empty map) x 3 address sets; a callback swapping one breakpoint for another in place (map size unchanged) at access 0..23, in small sets and in sets with 40 more addresses the program never reaches; all static subsets again in such a large set. Concrete-type pass: every program by Run on the package's own DumbMemory (len 65536 and 65536+256) / MapMemory and DumbIO handed over unwrapped, against a Step-driven twin on identical devices behind opaque wrappers, with nil / never-reached breakpoints, two Runs: same error, States (incl. R), HALT and device contents. A machine struct that embeds z80.CPU and is its own Memory and IO, driven by Step and by Run (in a process of its own). Placement: every program on CPUs that are elements of a []CPU and fields behind a uint32 / uint8 in a larger struct. Oracle: Step-driven twin with the stop rule applied outside. Non-trivial = histories with at least one breakpoint hit or callback-raised request (counted).", len(progs), len(cases))
	c.Bound = "4 Run calls; <=1 callback-raised request at every access index (thorough: <=2, every pair of indices)"
	bg := obsBackground(c)
	type sidePair struct{ a, b *c08Side }
	pairs := make([]*sidePair, 16)
	var evals, nontriv, steps [16 * 8]int64
	var capped int32
	parallel(int64(len(cases)), 1, 16, func(wi int, lo, hi int64) {
		if pairs[wi] == nil {
			pairs[wi] = &sidePair{newC08Side(bg), newC08Side(bg)}
		}
		sp := pairs[wi]
		var ev, nt, st int64
		defer func() { evals[wi*8] += ev; nontriv[wi*8] += nt; steps[wi*8] += st }()
		for ci := lo; ci < hi; ci++ {
			cs := cases[ci]
			p := &progs[cs.Prog]
			d, n := c08One(sp.a, sp.b, p, &cs)
			ev++
			st += int64(n)
			if len(cs.BPs) > 0 {
				nt++
			}
			if cs.BPOp != 0 || cs.Ctx == 2 || len(cs.Swaps) > 0 || cs.Fill > 0 {
				if d != nil {
					cs.Name = p.name
					c.Report(fmt.Sprintf("c08/run:%s", p.name), ci*1000, "", cs, cloneStrings(append([]string{fmt.Sprintf("program %q, breakpoints %04X, context kind %d, breakpoint edit %d at access %d, edits between Runs %+v", p.name, cs.BPs, cs.Ctx, cs.BPOp, cs.BPAt, cs.Swaps)}, d...)))
				}
				continue // no request sweep for these
			}
			report := func(d []string) {
				cs.Name = p.name
				c.Report(fmt.Sprintf("c08/run:%s", p.name), ci*1000+int64(cs.J+1), "", cs, cloneStrings(append([]string{fmt.Sprintf("program %q, breakpoints %04X (nil map: %v), request of kind %d at access %d (kinds: 1 NMI, 2 IM1, 3 mode-0 HALT, 4 mode-0 RST 38, 5 mode-0 INC A), pending on entry: kind %d, context kind %d", p.name, cs.BPs, cs.NilMap, cs.Kind, cs.J, cs.Pre, cs.Ctx)}, d...)))
			}
			if d != nil {
				report(d)
				continue
			}
			// deviation bound 1: a request raised inside the callback at access j
			total := sp.b.n
			for j := 0; j < total+2; j++ {
				for kind := 1; kind <= 5; kind++ {
					cs.J, cs.Kind, cs.NMI = j, kind, kind == 1
					d, n := c08One(sp.a, sp.b, p, &cs)
					ev++
					nt++
					st += int64(n)
					if d != nil {
						report(d)
						return
					}
				}
			}
			cs.Kind = 0
			// a request already pending when the first Run is entered
			for kind := 1; kind <= 5; kind++ {
				cs.J, cs.Pre = -1, kind
				d, n := c08One(sp.a, sp.b, p, &cs)
				ev++
				nt++
				st += int64(n)
				if d != nil {
					report(d)
					return
				}
			}
			cs.Pre = 0
			if !c.Quick() {
				// deviation bound 2: two callback-raised requests at every pair of access indices
				for j := 0; j < total+2; j++ {
					for j2 := j + 1; j2 < total+6; j2++ {
						for k := 0; k < 4; k++ {
							cs.J, cs.NMI, cs.J2, cs.NMI2 = j, k&1 != 0, j2, k&2 != 0
							d, n := c08One(sp.a, sp.b, p, &cs)
							ev++
							nt++
							st += int64(n)
							if d != nil {
								report(d)
								return
							}
						}
					}
				}
				cs.J2 = 0
			}
			if c.TimeUp() {
				if atomic.CompareAndSwapInt32(&capped, 0, 1) {
					c.Capped("time cap reached")
				}
				return
			}
		}
	}, func() bool { return atomic.LoadInt32(&capped) != 0 })
	for i := range evals {
		c.Evaluations += evals[i]
		c.Nontrivial += nontriv[i]
		c.Transitions += steps[i]
	}
	c08Concrete(c, progs)
	c08Placement(c, progs)
	runMachineScenario(c, "c08/machine")
	c.States = c.Evaluations * 4
	c.Traces = c.Evaluations
	c.Exhaustive = true
	c.Set("configurations", len(cases))
	c.Sample(c08Case{Prog: 5, Name: progs[5].name, BPs: []uint16{0x0109}, Runs: 4, J: 17, NMI: true})
	c.Sample(c08Case{Prog: 3, Name: progs[3].name, BPs: []uint16{0x0000, 0xFFFF}, Runs: 4, J: -1})
	c.Assume("the contexts are never cancelled here; cancellation is C13's subject")
	c.Assume("'never stops earlier or later' is decided by the exact equality of the memory access sequences of Run and of the twin's Steps")
}

func replayC08(c *Ctx, raw []byte) []string {
	var cs c08Case
	if err := json.Unmarshal(raw, &cs); err != nil {
		return []string{"bad replay file"}
	}
	progs := c08Progs()
	bg := obs.NewBackground(cs.Salt)
	d, _ := c08One(newC08Side(bg), newC08Side(bg), &progs[cs.Prog], &cs)
	return cloneStrings(d)
}

// c08Concrete: Run on the package's own device types, handed over unwrapped, against a Step-driven twin
// whose identical devices sit behind opaque wrappers. A Run-only or type-only shortcut (a bulk copy for
// LDIR on a DumbMemory, a fast-forwarded delay loop) must leave exactly what the Steps leave.
func c08Concrete(c *Ctx, progs []c08Prog) {
	bg := obsBackground(c)
	var n int64
	for pi := range progs {
		p := &progs[pi]
		for kind := 0; kind < 3; kind++ {
			for bps := 0; bps < 2; bps++ {
				mk := func() (z80.Memory, func() []uint8, map[uint16]uint8) {
					if kind == 2 {
						mm := z80.MapMemory{}
						for _, pk := range p.code {
							mm.Put(pk.Addr, pk.Data...)
						}
						return mm, nil, mm
					}
					l := 65536
					if kind == 1 {
						l += 256
					}
					dm := make(z80.DumbMemory, l)
					copy(dm, bg[:])
					for _, pk := range p.code {
						for i, b := range pk.Data {
							dm[int(pk.Addr+uint16(i))] = b
						}
					}
					return dm, func() []uint8 { return dm }, nil
				}
				memA, bytesA, mapA := mk()
				memB, bytesB, mapB := mk()
				ioA, ioB := make(z80.DumbIO, 256), make(z80.DumbIO, 256)
				for i := range ioA {
					ioA[i], ioB[i] = uint8(i*5+1), uint8(i*5+1)
				}
				wrapB := &opaqueMem{m: memB, limit: 1 << 30}
				a := z80.CPU{Memory: memA, IO: ioA}
				b := z80.CPU{Memory: wrapB, IO: &opaqueIO{ioB}}
				base := baseVector(0)
				st := base.S
				st.PC, st.SP, st.IM = p.pc, 0xF000, 1
				st.IFF1, st.IFF2 = p.iff, p.iff
				toCPU(&st, &a)
				toCPU(&st, &b)
				if bps == 1 {
					a.BreakPoints = map[uint16]struct{}{0x4321: {}}
					b.BreakPoints = map[uint16]struct{}{0x4321: {}}
				}
				name := []string{"DumbMemory len 65536", "DumbMemory len 65536+256", "MapMemory"}[kind]
				for run := 0; run < 2; run++ {
					var errT, errR error
					var fin bool
					var steps int
					var panT, panR interface{}
					func() {
						defer func() { panT = recover() }()
						errT, steps, fin = twinRun(&b, 5000)
					}()
					if panT != nil || !fin {
						break // the twin is the reference; a program that does not end on these devices is not judged
					}
					done := c.WatchWall(func() string { return fmt.Sprintf("Run of program %q on %s", p.name, name) })
					func() {
						defer func() { panR = recover() }()
						errR = a.Run(bgCtx)
					}()
					done()
					n++
					var d []string
					if panR != nil {
						d = append(d, fmt.Sprintf("Run panicked: %v", panR))
					} else {
						if errR != errT {
							d = append(d, fmt.Sprintf("Run #%d returned %v, the Step-driven twin stops with %v after %d Steps", run+1, errR, errT, steps))
						}
						if a.States != b.States || a.HALT != b.HALT {
							x, y := fromCPU(&a), fromCPU(&b)
							d = append(d, fmt.Sprintf("after Run #%d: Run %v ; %d Steps %v", run+1, stateMap(&x), steps, stateMap(&y)))
						}
						if bytesA != nil {
							if i := firstDiff(bytesA(), bytesB()); i >= 0 {
								d = append(d, fmt.Sprintf("memory differs at index %#x after Run #%d: Run %02X, Steps %02X", i, run+1, bytesA()[i], bytesB()[i]))
							}
						} else {
							if len(mapA) != len(mapB) {
								d = append(d, fmt.Sprintf("MapMemory sizes differ after Run #%d: %d vs %d entries", run+1, len(mapA), len(mapB)))
							}
							for k, v := range mapB {
								if w, ok := mapA[k]; !ok || w != v {
									d = append(d, fmt.Sprintf("MapMemory[%04X] after Run #%d: Run %02X (present %v), Steps %02X", k, run+1, w, ok, v))
									break
								}
							}
						}
						if i := firstDiff(ioA, ioB); i >= 0 {
							d = append(d, fmt.Sprintf("DumbIO differs at port %02X after Run #%d", i, run+1))
						}
					}
					if len(d) > 0 {
						c.Report("c08/concrete:"+p.name, int64(pi*10+kind), "", map[string]interface{}{"program": p.name, "memory": name, "breakpoints_map": bps == 1}, append([]string{fmt.Sprintf("program %q on %s + DumbIO handed to the CPU unwrapped, breakpoint map present: %v", p.name, name, bps == 1)}, d...))
						break
					}
				}
			}
		}
	}
	c.Evaluations += n
	c.Nontrivial += n
	c.Set("concrete_type_runs", n)
}

// c08Placement: where a CPU value lives is the embedder's business - an element of a []CPU, a field behind a
// uint32 or a uint8 in a larger struct, a by-value copy on the stack. Run and Step must not care (on 32-bit
// targets 64-bit atomics on a misplaced field panic; bin/check repeats C08 compiled for GOARCH=386).
func c08Placement(c *Ctx, progs []c08Prog) {
	type board struct {
		tag  uint32
		cpu  z80.CPU
		b    uint8
		cpu2 z80.CPU
	}
	bg := obsBackground(c)
	var n int64
	for pi := range progs {
		p := &progs[pi]
		arr := make([]z80.CPU, 5)
		brd := &board{}
		places := []*z80.CPU{&arr[0], &arr[1], &arr[2], &arr[3], &arr[4], &brd.cpu, &brd.cpu2}
		for wi, cpu := range places {
			mem := obs.NewMem(bg)
			mem.Limit = 200000
			for _, pk := range p.code {
				mem.Poke(pk.Addr, pk.Data...)
			}
			*cpu = z80.CPU{Memory: mem, IO: &obs.IO{X: 0x21, Y: 0x35}}
			base := baseVector(0)
			st := base.S
			st.PC, st.SP, st.IM = p.pc, 0xF000, 1
			st.IFF1, st.IFF2 = p.iff, p.iff
			toCPU(&st, cpu)
			tmem := obs.NewMem(bg)
			tmem.Limit = 200000
			for _, pk := range p.code {
				tmem.Poke(pk.Addr, pk.Data...)
			}
			twin := &z80.CPU{Memory: tmem, IO: &obs.IO{X: 0x21, Y: 0x35}}
			toCPU(&st, twin)
			var errT, errR error
			var fin bool
			var pan interface{}
			func() {
				defer func() { pan = recover() }()
				errT, _, fin = twinRun(twin, 5000)
				if fin {
					defer c08Watch(func() string { return fmt.Sprintf("Run of program %q on a CPU stored as %d-th element of a slice; its Step-driven twin ended", p.name, wi) })()
					errR = cpu.Run(bgCtx)
				}
			}()
			n++
			if pan != nil || (fin && (errR != errT || cpu.States != twin.States || cpu.HALT != twin.HALT)) {
				where := fmt.Sprintf("element %d of a []z80.CPU", wi)
				if wi >= 5 {
					where = []string{"a z80.CPU field behind a uint32 in a struct", "a z80.CPU field behind a uint8 in a struct"}[wi-5]
				}
				c.Report("c08/placement:"+p.name, int64(pi*10+wi), "", map[string]interface{}{"program": p.name, "cpu_lives_in": where}, []string{fmt.Sprintf("program %q run on %s: panic %v; Run returned %v (twin: %v)", p.name, where, pan, errR, errT)})
				break
			}
		}
	}
	c.Evaluations += n
	c.Nontrivial += n
}

// c08Watch: a Run that spins without touching memory is invisible to the access-count watchdog; the wall monitor
// of the framework reports it (two minutes for programs of a few dozen instructions) and ends the check.
func c08Watch(desc func() string) func() {
	if currentCtx == nil {
		return func() {}
	}
	return currentCtx.WatchWall(desc)
}
