package main

import (
	"bytes"
	"context"
	"encoding/json"
	"fmt"
	"os"
	"os/exec"
	"strconv"
	"sync/atomic"
	"time"

	"github.com/koron-go/z80/internal/verif/obs"
)

// First-use sensitivity. The outcome of a Step may depend on States, the
// pending request, memory and ports - not on what this *process* happened to
// execute first. Package-level state that is built lazily (a flag table filled
// in by the first INC, a decode cache, a sync.Once) captures whatever the first
// user's registers held; inside one long-running check process the first use
// is always the same harmless one, so such a capture never shows. Here every
// implemented encoding gets processes of its own: the encoding is the very
// first instruction the fresh process executes, once from a state with every
// flag clear and once from a state with every flag set (two different register
// files), and is then swept over the quick lattice against refz80 inside that
// same process.

type firstUseOut struct {
	Enc     string   `json:"encoding"`
	Variant int      `json:"first_use_variant"` // 0: first executed with F=00 from base vector 0; 1: with F=FF from base vector 1
	Case    CaseJSON `json:"case"`
	Diff    []string `json:"diff"`
	Cases   int64    `json:"cases"`
}

// firstUseChild is `vz80 firstuse <hex bytes> <variant> <salt>`; nothing has executed a Step before it.
func firstUseChild(args []string) int {
	if len(args) < 3 {
		fmt.Fprintln(os.Stderr, "usage: vz80 firstuse <hexbytes> <variant> <salt>")
		return 2
	}
	e := buildEnc(parseHexBytes(args[0]))
	variant, _ := strconv.Atoi(args[1])
	salt64, _ := strconv.ParseUint(args[2], 10, 32)
	salt := uint32(salt64)
	w := newWorker(obs.NewBackground(salt))
	out := firstUseOut{Enc: e.Name, Variant: variant}
	aspects := AspState | AspI | AspMem | AspPortsOut
	var cs Case
	emit := func(d []string) int {
		out.Case, out.Diff = cs.toJSON(salt), d
		b, _ := json.Marshal(out)
		fmt.Println(string(b))
		return 3
	}
	// the first instruction of this process
	p := baseVector(variant)
	materialise(&p, &e, &cs)
	cs.S.F = []uint8{0x00, 0xFF}[variant&1]
	res := w.stepBoth(&cs)
	out.Cases++
	if d := w.compare(&cs, res, aspects); d != nil {
		return emit(append([]string{"the very first Step of the process:"}, cloneStrings(d)...))
	}
	// now the sweep, in the same process
	lat := newLattice(salt, false)
	seen := map[protoKey]struct{}{}
	var bad []string
	lat.forEachProto(&e, seen, func(idx int, p *Proto) {
		if bad != nil {
			return
		}
		materialise(p, &e, &cs)
		for _, f := range []uint8{0x00, 0xFF, 0x45, 0xBA} {
			cs.S.F = f
			res := w.stepBoth(&cs)
			out.Cases++
			if d := w.compare(&cs, res, aspects); d != nil {
				bad = append([]string{fmt.Sprintf("after the process's first Step executed %s with F=%02X:", e.Name, []uint8{0x00, 0xFF}[variant&1])}, cloneStrings(d)...)
				return
			}
		}
	})
	if bad != nil {
		return emit(bad)
	}
	b, _ := json.Marshal(out)
	fmt.Println(string(b))
	return 0
}

// runFirstUse spawns the child processes for encs (16 at a time).
func runFirstUse(c *Ctx, name string, encs []*Enc) {
	self, err := os.Executable()
	if err != nil {
		c.Set("first_use_pass", "skipped: "+err.Error())
		return
	}
	var procs, cases int64
	var failed int32
	parallel(int64(len(encs))*2, 4, 16, func(wi int, lo, hi int64) {
		for i := lo; i < hi; i++ {
			if atomic.LoadInt32(&failed) > 8 {
				return
			}
			e := encs[i/2]
			variant := int(i % 2)
			ctx, cancel := context.WithTimeout(context.Background(), 2*time.Minute)
			cmd := exec.CommandContext(ctx, self, "firstuse", hexBytes(e.Fixed), fmt.Sprint(variant), fmt.Sprint(c.Salt))
			var so, se bytes.Buffer
			cmd.Stdout, cmd.Stderr = &so, &se
			err := cmd.Run()
			cancel()
			atomic.AddInt64(&procs, 1)
			var out firstUseOut
			if jerr := json.Unmarshal(bytes.TrimSpace(so.Bytes()), &out); jerr != nil {
				// the child died without a verdict: a panic at first use is a finding, anything else a framework problem
				c.Report(name+":"+e.Name, i, "", map[string]interface{}{"encoding": e.Name, "bytes": hexBytes(e.Fixed), "first_use_variant": variant},
					[]string{fmt.Sprintf("fresh process executing %s first (variant %d) ended without a verdict: %v; stderr: %.600s", e.Name, variant, err, se.String())})
				atomic.AddInt32(&failed, 1)
				continue
			}
			atomic.AddInt64(&cases, out.Cases)
			if len(out.Diff) > 0 {
				out.Enc = hexBytes(e.Fixed)
				c.Report(name+":"+e.Name, i, "", out, append([]string{fmt.Sprintf("fresh process; encoding %s (%s) is the first instruction it executes (variant %d: F=%s, base vector %d)", e.Name, hexBytes(e.Fixed), variant, []string{"00", "FF"}[variant], variant)}, out.Diff...))
				atomic.AddInt32(&failed, 1)
			}
		}
	}, nil)
	c.Evaluations += cases
	c.Transitions += cases
	c.Traces += procs
	c.States += cases
	c.Nontrivial += cases
	c.Set("first_use_processes", procs)
	c.Set("first_use_cases", cases)
}

func replayFirstUse(c *Ctx, raw []byte) []string {
	var o firstUseOut
	if err := json.Unmarshal(raw, &o); err != nil {
		return []string{"bad replay file: " + err.Error()}
	}
	self, err := os.Executable()
	if err != nil {
		return []string{err.Error()}
	}
	cmd := exec.Command(self, "firstuse", o.Enc, fmt.Sprint(o.Variant), fmt.Sprint(o.Case.Salt))
	var so bytes.Buffer
	cmd.Stdout = &so
	cmd.Run()
	var out firstUseOut
	if err := json.Unmarshal(bytes.TrimSpace(so.Bytes()), &out); err != nil {
		return []string{"child gave no verdict: " + so.String()}
	}
	return out.Diff
}
