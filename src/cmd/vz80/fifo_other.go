//go:build !unix

package main

import (
	"errors"
	"os"
)

func makeFifo(path string) error { return errors.New("no named pipes on this platform") }

func openNonblockRead(path string) (*os.File, error) { return nil, errors.New("not supported") }
