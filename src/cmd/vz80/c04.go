package main

import (
	"fmt"
	z80 "github.com/koron-go/z80"

	"github.com/koron-go/z80/internal/verif/refz80"
)

// C04: jumps, calls, returns and the stack follow conditions and addresses
// exactly. ENUM over all control-transfer and stack encodings x lattice x all
// 256 F (all 256 B for DJNZ, all 256 offsets), compared with refz80 and with a
// model-free oracle written here (condition truth table, pushed bytes,
// untaken = only PC advances); plus two-Step round trips CALL/RST;RET and
// PUSH qq;POP qq.
func init() {
	register("C04", checkC04)
	replayers["c04/step"] = func(c *Ctx, raw []byte) []string {
		return replayStepCase(c, raw, AspState|AspMem|AspReads|AspWrites)
	}
}

func c04Kind(k refz80.Kind) bool {
	switch k {
	case refz80.KJp, refz80.KJr, refz80.KDjnz, refz80.KJpReg, refz80.KCall, refz80.KRet, refz80.KRetn, refz80.KReti,
		refz80.KRst, refz80.KPush, refz80.KPop:
		return true
	}
	return false
}

// condTable[cc] = (flag mask, value the masked flag must have)
var condTable = [8]struct{ mask, want uint8 }{
	{0x40, 0x00}, {0x40, 0x40}, {0x01, 0x00}, {0x01, 0x01}, {0x04, 0x00}, {0x04, 0x04}, {0x80, 0x00}, {0x80, 0x80},
}

// c04Oracle is independent of refz80's executor: it uses only the decoded
// instruction shape (kind, cc, operand bytes) and the pre/post observations.
func c04Oracle(w *Worker, e *Enc, cs *Case, res *StepResult) []string {
	in := &res.Out.Inst
	pre, got := &cs.S, &res.Got
	var d []string
	next := pre.PC + uint16(in.Len)
	taken := true
	if in.CC < 8 {
		taken = pre.F&condTable[in.CC].mask == condTable[in.CC].want
	}
	if in.Kind == refz80.KDjnz {
		taken = pre.B-1 != 0
		if got.B != pre.B-1 {
			d = append(d, fmt.Sprintf("DJNZ: B want %02X got %02X", pre.B-1, got.B))
		}
	}
	// no flag changes (POP AF loads F from the stack)
	if !(in.Kind == refz80.KPop && in.Dst16 == refz80.RAF) && got.F != pre.F {
		d = append(d, fmt.Sprintf("flags changed: %s -> %s", flagStr(pre.F), flagStr(got.F)))
	}
	dataReads := len(w.imem.Reads) - in.Len
	switch in.Kind {
	case refz80.KJp, refz80.KJr, refz80.KDjnz, refz80.KCall, refz80.KRet:
		if !taken {
			if got.PC != next {
				d = append(d, fmt.Sprintf("untaken: PC want %04X got %04X", next, got.PC))
			}
			if got.SP != pre.SP || dataReads != 0 || len(w.imem.Writes) != 0 {
				d = append(d, fmt.Sprintf("untaken form touched stack/target: SP %04X->%04X, %d data reads, %d writes", pre.SP, got.SP, dataReads, len(w.imem.Writes)))
			}
		}
	}
	if taken {
		switch in.Kind {
		case refz80.KJp:
			if got.PC != in.NN {
				d = append(d, fmt.Sprintf("JP: PC want %04X got %04X", in.NN, got.PC))
			}
		case refz80.KJr, refz80.KDjnz:
			off := int(in.D)
			if off >= 128 {
				off -= 256
			}
			if want := uint16(int(next) + off); got.PC != want {
				d = append(d, fmt.Sprintf("relative jump: PC want %04X got %04X (offset %+d from %04X)", want, got.PC, off, next))
			}
		case refz80.KCall, refz80.KRst:
			if got.PC != in.NN || got.SP != pre.SP-2 {
				d = append(d, fmt.Sprintf("CALL/RST: want PC=%04X SP=%04X got PC=%04X SP=%04X", in.NN, pre.SP-2, got.PC, got.SP))
			}
			if hi, lo := w.imem.Peek(pre.SP-1), w.imem.Peek(pre.SP-2); hi != uint8(next>>8) || lo != uint8(next) {
				d = append(d, fmt.Sprintf("CALL/RST: stack bytes want (SP-1)=%02X (SP-2)=%02X got %02X %02X", uint8(next>>8), uint8(next), hi, lo))
			}
		case refz80.KRet, refz80.KRetn, refz80.KReti:
			// the two stack bytes as they were before the Step (the Step writes nothing)
			want := uint16(w.imem.Peek(pre.SP)) | uint16(w.imem.Peek(pre.SP+1))<<8
			if got.PC != want || got.SP != pre.SP+2 || len(w.imem.Writes) != 0 {
				d = append(d, fmt.Sprintf("RET: want PC=%04X SP=%04X got PC=%04X SP=%04X writes=%d", want, pre.SP+2, got.PC, got.SP, len(w.imem.Writes)))
			}
		case refz80.KJpReg:
			var want uint16
			switch in.Src16 {
			case refz80.RHL:
				want = uint16(pre.H)<<8 | uint16(pre.L)
			case refz80.RIX:
				want = pre.IX
			case refz80.RIY:
				want = pre.IY
			}
			if got.PC != want || dataReads != 0 {
				d = append(d, fmt.Sprintf("JP (rr): PC want %04X got %04X, data reads %d", want, got.PC, dataReads))
			}
		}
	}
	return d
}

type c04RT struct {
	Program string            `json:"program"`
	State   map[string]string `json:"state"`
}

func checkC04(c *Ctx) {
	c.Rule = "all control-transfer/stack encodings (8 JP cc, 8 CALL cc, 8 RET cc, 4 JR cc, JP, JR, DJNZ, CALL, RET, RETI, RETN, 8 RST, JP (HL)/(IX)/(IY), 6 PUSH, 6 POP) x lattice (PC at 0000/8000/FFFC..FFFF, SP in W16 and PC-2..PC+5 incl. stack bytes overlapping the instruction, targets in W16 and PC-relative, all 256 relative offsets) x all 256 F, plus all 256 B x 256 offsets for DJNZ; oracles: refz80 and a separate truth-table oracle; two-Step round trips CALL cc/RST n;RET and PUSH qq;POP qq over SP lattice x 256 F; RETN/RETI with a handler that switches stacks (z80.go: the handler is called before the opcode executes): the return pops from the SP the handler left, over SP x new SP x PC lattices. Non-trivial: counted as in C01."
	c.Bound = "lattice v1 " + c.Tier
	runStepConformance(c, stepConfOpts{name: "c04/step", aspects: AspState | AspMem | AspReads | AspWrites,
		filter: func(e *Enc) bool { return c04Kind(e.Inst.Kind) }, extra: c04Oracle})
	c04DJNZ(c)
	c04RoundTrips(c)
	c04TaskSwitch(c)
	c.Assume("RETI may leave IFF1 unchanged or copy IFF2 (DESIGN §6)")
}

// c04DJNZ: all 256 B x all 256 offsets x PC lattice.
func c04DJNZ(c *Ctx) {
	w := newWorker(obsBackground(c))
	e := buildEnc([]uint8{0x10})
	var n int64
	for _, pc := range []uint16{0x0100, 0x0000, 0x8000, 0xFFFD, 0xFFFE, 0xFFFF} {
		for b := 0; b < 256; b++ {
			for off := 0; off < 256; off++ {
				p := baseVector(0)
				p.S.PC, p.S.B, p.D = pc, uint8(b), uint8(off)
				var cs Case
				materialise(&p, &e, &cs)
				res := w.stepBoth(&cs)
				n++
				d := w.compare(&cs, res, AspState|AspMem|AspReads|AspWrites)
				d = append(d, c04Oracle(w, &e, &cs, res)...)
				if len(d) > 0 {
					c.Report("c04/step:10 (all B)", n, "", cs.toJSON(c.Salt), cloneStrings(d))
					return
				}
			}
		}
	}
	c.Evaluations += n
	c.Transitions += n
	c.Traces += n
	c.Nontrivial += n
	c.States += n
}

// c04RoundTrips: (CALL cc,nn | RST n) ; RET  and  PUSH qq ; POP qq.
func c04RoundTrips(c *Ctx) {
	w := newWorker(obsBackground(c))
	var n int64
	sps := []uint16{0x0000, 0x0001, 0x0002, 0x8000, 0xFFFE, 0xFFFF, 0x7F58}
	pcs := []uint16{0x0100, 0xFFFD, 0xFFFE, 0x8000}
	fail := func(name string, s *refz80.State, d string) {
		c.Report("c04/roundtrip:"+name, n, "", c04RT{name, stateMap(s)}, []string{d})
	}
	step := func() bool {
		ok := true
		func() {
			defer func() {
				if recover() != nil {
					ok = false
				}
			}()
			w.liveStep()
		}()
		return ok
	}
	// CALL cc,target ; target: RET
	callOps := []uint8{0xCD, 0xC4, 0xCC, 0xD4, 0xDC, 0xE4, 0xEC, 0xF4, 0xFC}
	for _, op := range callOps {
		for _, pc := range pcs {
			for _, sp := range sps {
				for f := 0; f < 256; f++ {
					p := baseVector(1)
					p.S.PC, p.S.SP, p.S.F = pc, sp, uint8(f)
					target := uint16(0x4000)
					cs := Case{S: p.S, Bytes: []uint8{op, uint8(target), uint8(target >> 8)}, Pokes: []Poke{{target, []uint8{0xC9}}}}
					w.setup(&cs)
					if !step() || !step() {
						fail(fmt.Sprintf("CALL %02X; RET", op), &cs.S, "panic")
						return
					}
					n++
					got := fromCPU(&w.cpu)
					cc := uint8(8)
					if op != 0xCD {
						cc = (op >> 3) & 7
					}
					taken := cc == 8 || cs.S.F&condTable[cc].mask == condTable[cc].want
					if taken {
						// the stack may overlap the CALL's own bytes or the RET: only judge when it does not
						ov := false
						for _, a := range []uint16{sp - 1, sp - 2} {
							if a == target || (a-pc) < 3 {
								ov = true
							}
						}
						if ov {
							continue
						}
						if got.PC != pc+3 || got.SP != sp || got.F != uint8(f) {
							fail(fmt.Sprintf("CALL %02X; RET", op), &cs.S, fmt.Sprintf("after CALL;RET want PC=%04X SP=%04X F=%02X got PC=%04X SP=%04X F=%02X", pc+3, sp, f, got.PC, got.SP, got.F))
							return
						}
					}
				}
			}
		}
	}
	// RST n ; RET (RET poked at the restart address)
	for y := 0; y < 8; y++ {
		for _, pc := range pcs {
			for _, sp := range sps {
				p := baseVector(2)
				p.S.PC, p.S.SP = pc, sp
				target := uint16(y * 8)
				cs := Case{S: p.S, Bytes: []uint8{0xC7 | uint8(y)<<3}, Pokes: []Poke{{target, []uint8{0xC9}}}}
				ov := false
				for _, a := range []uint16{sp - 1, sp - 2} {
					if a == target || a == pc {
						ov = true
					}
				}
				if ov || pc == target {
					continue
				}
				w.setup(&cs)
				if !step() || !step() {
					fail(fmt.Sprintf("RST %02X; RET", y*8), &cs.S, "panic")
					return
				}
				n++
				got := fromCPU(&w.cpu)
				if got.PC != pc+1 || got.SP != sp || got.F != cs.S.F {
					fail(fmt.Sprintf("RST %02X; RET", y*8), &cs.S, fmt.Sprintf("after RST;RET want PC=%04X SP=%04X got PC=%04X SP=%04X", pc+1, sp, got.PC, got.SP))
					return
				}
			}
		}
	}
	// PUSH qq ; POP qq  (identity on qq and SP), and PUSH qq ; POP rr moves the value
	type pp struct {
		name      string
		push, pop []uint8
	}
	pps := []pp{{"BC", []uint8{0xC5}, []uint8{0xC1}}, {"DE", []uint8{0xD5}, []uint8{0xD1}}, {"HL", []uint8{0xE5}, []uint8{0xE1}},
		{"AF", []uint8{0xF5}, []uint8{0xF1}}, {"IX", []uint8{0xDD, 0xE5}, []uint8{0xDD, 0xE1}}, {"IY", []uint8{0xFD, 0xE5}, []uint8{0xFD, 0xE1}}}
	for _, q := range pps {
		for _, pc := range pcs {
			for _, sp := range sps {
				for f := 0; f < 256; f++ {
					p := baseVector(3)
					p.S.PC, p.S.SP, p.S.F = pc, sp, uint8(f)
					code := append(append([]uint8{}, q.push...), q.pop...)
					ov := false
					for _, a := range []uint16{sp - 1, sp - 2} {
						if a-pc < uint16(len(code)) {
							ov = true
						}
					}
					if ov {
						continue
					}
					cs := Case{S: p.S, Bytes: code}
					w.setup(&cs)
					if !step() || !step() {
						fail("PUSH;POP "+q.name, &cs.S, "panic")
						return
					}
					n++
					got := fromCPU(&w.cpu)
					want := cs.S
					want.PC = pc + uint16(len(code))
					want.R = got.R
					if got != want {
						fail("PUSH;POP "+q.name, &cs.S, fmt.Sprintf("PUSH %s; POP %s is not the identity: pre %v post %v", q.name, q.name, stateMap(&cs.S), stateMap(&got)))
						return
					}
					if hi, lo := w.imem.Peek(sp-1), w.imem.Peek(sp-2); q.name == "AF" && (hi != cs.S.A || lo != uint8(f)) {
						fail("PUSH;POP "+q.name, &cs.S, fmt.Sprintf("PUSH AF stored %02X %02X want %02X %02X", hi, lo, cs.S.A, f))
						return
					}
				}
			}
		}
	}
	c.Evaluations += n
	c.Transitions += 2 * n
	c.Traces += n
	c.Nontrivial += n
	c.States += n
	c.Sample(c04RT{"PUSH IX; POP IX at PC=FFFE SP=0001 (SP wraps)", nil})
}

// spSwitcher is a RETN/RETI handler of a host-side task switcher: it re-points the stack (and loads
// another register set) when the interrupt routine returns. z80.go documents that the handlers are
// called *before* the opcode executes, so the return address comes from the stack the handler selected.
type spSwitcher struct {
	cpu   *z80.CPU
	newSP uint16
	calls int
}

func (h *spSwitcher) RETNHandle() { h.calls++; h.cpu.SP = h.newSP; h.cpu.BC.Lo ^= 0xFF }
func (h *spSwitcher) RETIHandle() { h.calls++; h.cpu.SP = h.newSP; h.cpu.BC.Lo ^= 0xFF }

func c04TaskSwitch(c *Ctx) {
	w := newWorker(obsBackground(c))
	var n int64
	sps := []uint16{0x0000, 0x0001, 0x8000, 0xFFFE, 0xFFFF, 0x7F58}
	news := []uint16{0x0000, 0x0001, 0x9000, 0xFFFE, 0xFFFF, 0x7F58, 0x7F5A}
	for _, op := range []uint8{0x45, 0x4D} {
		for _, pc := range []uint16{0x0100, 0xFFFE, 0x8000} {
			for _, sp := range sps {
				for _, nsp := range news {
					for iff := 0; iff < 4; iff++ {
						p := baseVector(1)
						p.S.PC, p.S.SP = pc, sp
						p.S.IFF1, p.S.IFF2 = iff&1 != 0, iff&2 != 0
						cs := Case{S: p.S, Bytes: []uint8{0xED, op}}
						w.setup(&cs)
						h := &spSwitcher{cpu: &w.cpu, newSP: nsp}
						w.cpu.RETNHandler, w.cpu.RETIHandler = h, h
						wantPC := w.imem.Peek16(nsp)
						oldTop := w.imem.Peek16(sp)
						var pan interface{}
						func() {
							defer func() { pan = recover() }()
							w.liveStep()
						}()
						n++
						got := fromCPU(&w.cpu)
						var d []string
						if pan != nil {
							d = append(d, fmt.Sprintf("panic: %v", pan))
						} else {
							if h.calls != 1 {
								d = append(d, fmt.Sprintf("handler called %d times", h.calls))
							}
							if got.PC != wantPC || got.SP != nsp+2 {
								d = append(d, fmt.Sprintf("the handler selected the stack at %04X (return address %04X there; the old stack at %04X holds %04X): after the return want PC=%04X SP=%04X, got PC=%04X SP=%04X", nsp, wantPC, sp, oldTop, wantPC, nsp+2, got.PC, got.SP))
							}
							if got.C != cs.S.C^0xFF {
								d = append(d, "a register the handler changed was overwritten by the return")
							}
						}
						if len(d) > 0 {
							c.Report(fmt.Sprintf("c04/taskswitch:ED %02X", op), n, "", map[string]interface{}{"bytes": hexBytes(cs.Bytes), "pc": pc, "sp": sp, "handler_sets_sp": nsp}, append([]string{fmt.Sprintf("ED %02X at PC=%04X, SP=%04X, RETN/RETI handler sets SP=%04X", op, pc, sp, nsp)}, d...))
							return
						}
					}
				}
			}
		}
	}
	c.Evaluations += n
	c.Transitions += n
	c.Traces += n
	c.Nontrivial += n
	c.States += n
}
