package main

import (
	"encoding/json"
	"fmt"
	"sync"
	"sync/atomic"

	"github.com/koron-go/z80/internal/verif/obs"
	"github.com/koron-go/z80/internal/verif/refz80"
)

// stepConformance is the ENUM engine for single-Step conformance against
// refz80: every implemented encoding x lattice x all 256 F, compared under the
// given aspects. Shared by C01 (state/memory/ports), C05 (access logs) and
// C14 (refresh register).
type stepConfOpts struct {
	name    string
	aspects int
	filter  func(e *Enc) bool
	// sig, if non-nil, maps a violating case to a known-finding signature.
	sig func(e *Enc, cs *Case, res *StepResult, diff []string) string
	// extra, if non-nil, is evaluated on every case (additional obligations).
	extra func(w *Worker, e *Enc, cs *Case, res *StepResult) []string
	allR  bool // additionally sweep all 256 R values at the base states
}

// AspFrame: additionally check the registers visible to device callbacks (Worker.frameDiff)
const AspFrame = 1 << 20

type stepConfStats struct {
	cases, nontrivial, outcomes, protos int64
}

func fnv(h uint64, b uint8) uint64 { return (h ^ uint64(b)) * 1099511628211 }

func hashState(s *refz80.State) uint64 {
	h := uint64(14695981039346656037)
	for _, b := range []uint8{s.A, s.F, s.B, s.C, s.D, s.E, s.H, s.L, s.A2, s.F2, s.B2, s.C2, s.D2, s.E2, s.H2, s.L2,
		uint8(s.IX), uint8(s.IX >> 8), uint8(s.IY), uint8(s.IY >> 8), uint8(s.SP), uint8(s.SP >> 8), uint8(s.PC), uint8(s.PC >> 8), s.I, s.R, uint8(s.IM)} {
		h = fnv(h, b)
	}
	if s.IFF1 {
		h = fnv(h, 1)
	}
	if s.IFF2 {
		h = fnv(h, 2)
	}
	if s.Halt {
		h = fnv(h, 4)
	}
	return h
}

func runStepConformance(c *Ctx, o stepConfOpts) {
	set, err := implementedSet(c)
	if err != nil {
		fmt.Println("framework error:", err)
		c.Capped("framework error: " + err.Error())
		return
	}
	c.Set("pinned_encodings_that_logged_during_the_prepass", set.Missing)
	c.Set("implemented_encodings", len(set.Encs))
	c.Set("extra_encodings_not_compared", set.Extra)
	lat := newLattice(c.Salt, !c.Quick())
	bg := obs.NewBackground(c.Salt)
	var encs []*Enc
	for i := range set.Encs {
		if o.filter == nil || o.filter(&set.Encs[i]) {
			encs = append(encs, &set.Encs[i])
		}
	}
	nw := 16
	workers := make([]*Worker, nw)
	stats := make([]stepConfStats, nw)
	var sampleMu sync.Mutex
	var capped int32
	parallel(int64(len(encs)), 1, nw, func(wi int, lo, hi int64) {
		if workers[wi] == nil {
			workers[wi] = newWorker(bg)
			if o.aspects&AspFrame != 0 {
				workers[wi].enableFrame()
			}
		}
		w := workers[wi]
		var stLocal stepConfStats
		st := &stLocal
		defer func() {
			stats[wi].cases += st.cases
			stats[wi].nontrivial += st.nontrivial
			stats[wi].outcomes += st.outcomes
			stats[wi].protos += st.protos
		}()
		seen := map[protoKey]struct{}{}
		outs := newU64set(16)
		var cs Case
		for ei := lo; ei < hi; ei++ {
			e := encs[ei]
			failed := false
			outs.clear()
			run := func(idx int, p *Proto) {
				if failed {
					return
				}
				st.protos++
				materialise(p, e, &cs)
				for f := 0; f < 256 && !failed; f++ {
					cs.S.F = uint8(f)
					res := w.stepBoth(&cs)
					st.cases++
					// non-trivial: more than "PC/R advanced"
					if len(w.imem.Writes) > 0 || len(w.iio.Log) > 0 || len(w.imem.Reads) > e.Inst.Len {
						st.nontrivial++
					} else {
						pre := cs.S
						pre.PC, pre.R = res.Got.PC, res.Got.R
						if res.Got != pre {
							st.nontrivial++
						}
					}
					outs.add(hashState(&res.Got))
					d := w.compare(&cs, res, o.aspects)
					if o.aspects&AspFrame != 0 {
						if x := w.frameDiff(&cs, res); len(x) > 0 {
							d = append(d, x...)
						}
					}
					if o.extra != nil {
						if x := o.extra(w, e, &cs, res); len(x) > 0 {
							d = append(d, x...)
						}
					}
					if len(d) > 0 {
						sig := ""
						if o.sig != nil {
							sig = o.sig(e, &cs, res, d)
						}
						diff := append([]string{fmt.Sprintf("encoding %s (%s) at PC=%04X", e.Name, hexBytes(cs.Bytes), cs.S.PC)}, d...)
						c.Report(o.name+":"+e.Name, int64(idx)*256+int64(f), sig, cs.toJSON(c.Salt), cloneStrings(diff))
						if sig == "" || !c.isKnown(sig) {
							failed = true
						}
					}
				}
				if idx == 1 && ei%97 == 0 {
					sampleMu.Lock()
					c.Sample(map[string]interface{}{"case": cs.toJSON(c.Salt), "reads": fmtAcc(w.imem.Reads), "writes": fmtAcc(w.imem.Writes), "ports": fmtPorts(w.iio.Log), "post": stateMap(&res0(w).Got)})
					sampleMu.Unlock()
				}
			}
			// the sweep runs on a by-value copy of a CPU with a past (warmFork)
			{
				b := lat.Bases[int(ei)%len(lat.Bases)]
				materialise(&b, e, &cs)
				w.imem.Reset()
				w.iio.Reset()
				lim := w.imem.Limit
				w.imem.Limit = 0
				hook := w.imem.Hook
				w.imem.Hook = nil
				iohook := w.iio.Hook
				w.iio.Hook = nil
				w.cpu = warmFork(w.imem, w.iio, w.imem.Poke, &cs.S, cs.Bytes)
				w.imem.Limit, w.imem.Hook, w.iio.Hook = lim, hook, iohook
			}
			lat.forEachProto(e, seen, run)
			if o.allR {
				for b := range lat.Bases {
					for r := 0; r < 256; r++ {
						p := lat.Bases[b]
						p.S.R = uint8(r)
						run(100000+b*256+r, &p)
					}
				}
			}
			st.outcomes += int64(outs.len())
			if c.TimeUp() {
				if atomic.CompareAndSwapInt32(&capped, 0, 1) {
					c.Capped(fmt.Sprintf("time cap reached; encodings are handed out in order, see encodings_completed"))
				}
				return
			}
		}
	}, func() bool { return atomic.LoadInt32(&capped) != 0 })
	var tot stepConfStats
	for _, s := range stats {
		tot.cases += s.cases
		tot.nontrivial += s.nontrivial
		tot.outcomes += s.outcomes
		tot.protos += s.protos
	}
	c.Evaluations += tot.cases
	c.Transitions += tot.cases
	c.Traces += tot.cases
	c.States += tot.protos * 256
	c.Nontrivial += tot.nontrivial
	c.Set("distinct_outcomes", tot.outcomes)
	c.Set("lattice_points_per_run", tot.protos)
	c.Set("encodings_checked", len(encs))
	c.Set("lattice", fmt.Sprintf("%d bases x %d mods (+256 displacements per base for indexed forms) x 256 F; thorough pairs=%d", len(lat.Bases), len(lat.Mods), lat.NPairs))
	c.Exhaustive = true
}

func res0(w *Worker) *StepResult {
	r := &StepResult{Got: fromCPU(&w.cpu)}
	return r
}

func (c *Ctx) isKnown(sig string) bool {
	for _, k := range c.known {
		if k.Property == c.ID && k.Key == sig {
			return true
		}
	}
	return false
}

// replayStepCase re-executes one single-Step case and returns the diff.
func replayStepCase(c *Ctx, raw []byte, aspects int) []string {
	var j CaseJSON
	if err := json.Unmarshal(raw, &j); err != nil {
		return []string{"bad replay file: " + err.Error()}
	}
	cs := caseFromJSON(&j)
	w := newWorker(obs.NewBackground(j.Salt))
	if aspects&AspFrame != 0 {
		w.enableFrame()
	}
	res := w.stepBoth(&cs)
	d := cloneStrings(w.compare(&cs, res, aspects))
	if aspects&AspFrame != 0 {
		d = append(d, w.frameDiff(&cs, res)...)
	}
	return d
}
