package main

import (
	"encoding/json"
	"fmt"
	"sync/atomic"

	z80 "github.com/koron-go/z80"
	"github.com/koron-go/z80/internal/verif/refz80"
)

// C03: 16-bit arithmetic is exact for every operand pair and carry.
// (a) boundary lattice L16 x L16 x F for every encoding, complete state
// compared; (b) thorough: the complete 2^32 operand space x F in {00,FF} for
// the 15 two-register encodings, all 2^16 x 256 F for doubling and INC/DEC.
func init() {
	register("C03", checkC03)
	replayers["c03/arith16"] = replayC03
}

type c03Case struct {
	Enc string `json:"encoding"`
	A   uint16 `json:"dst"`
	B   uint16 `json:"src"`
	F   uint8  `json:"f"`
}

type fastMem struct{ b [65536]uint8 }

func (m *fastMem) Get(a uint16) uint8    { return m.b[a] }
func (m *fastMem) Set(a uint16, v uint8) { m.b[a] = v }

func c03Kind(k refz80.Kind) bool {
	switch k {
	case refz80.KAdd16, refz80.KAdc16, refz80.KSbc16, refz80.KInc16, refz80.KDec16:
		return true
	}
	return false
}

func getRP(cpu *z80.CPU, r refz80.RP) uint16 {
	switch r {
	case refz80.RBC:
		return cpu.BC.U16()
	case refz80.RDE:
		return cpu.DE.U16()
	case refz80.RHL:
		return cpu.HL.U16()
	case refz80.RSP:
		return cpu.SP
	case refz80.RIX:
		return cpu.IX
	case refz80.RIY:
		return cpu.IY
	}
	return 0
}

func setRP(cpu *z80.CPU, r refz80.RP, v uint16) {
	switch r {
	case refz80.RBC:
		cpu.BC = z80.Register{Hi: uint8(v >> 8), Lo: uint8(v)}
	case refz80.RDE:
		cpu.DE = z80.Register{Hi: uint8(v >> 8), Lo: uint8(v)}
	case refz80.RHL:
		cpu.HL = z80.Register{Hi: uint8(v >> 8), Lo: uint8(v)}
	case refz80.RSP:
		cpu.SP = v
	case refz80.RIX:
		cpu.IX = v
	case refz80.RIY:
		cpu.IY = v
	}
}

// c03Expect is the first-principles 17-bit arithmetic of refz80.
func c03Expect(in *refz80.Inst, a, b uint16, f uint8) (uint16, uint8) {
	switch in.Kind {
	case refz80.KAdd16:
		return refz80.Add16(a, b, f)
	case refz80.KAdc16:
		return refz80.Adc16(a, b, f)
	case refz80.KSbc16:
		return refz80.Sbc16(a, b, f)
	case refz80.KInc16:
		return a + 1, f
	case refz80.KDec16:
		return a - 1, f
	}
	return a, f
}

type c03Runner struct {
	cpu  z80.CPU
	mem  *fastMem
	e    *Enc
	base z80.States
	live *liveSlot
	prog c03Progress
}

// c03Progress: the block of operands a runner is in, for the liveness monitor (updated without synchronisation;
// read only when the runner has been stuck for minutes).
type c03Progress struct {
	Enc  string `json:"encoding"`
	A, B uint16
	F    uint8
}

func newC03Runner(e *Enc, k int) *c03Runner {
	r := &c03Runner{mem: &fastMem{}, e: e}
	r.cpu.Memory = r.mem
	p := baseVector(k)
	p.S.PC = 0x0100
	toCPU(&p.S, &r.cpu)
	r.base = r.cpu.States
	// the sweep runs on a by-value copy of a CPU with a past (warmFork)
	r.cpu = warmFork(r.mem, nil, func(a uint16, b ...uint8) {
		for i, x := range b {
			r.mem.b[a+uint16(i)] = x
		}
	}, &p.S, e.Fixed)
	r.cpu.Memory = r.mem
	for i := range r.mem.b {
		r.mem.b[i] = 0
	}
	r.cpu.States = r.base
	copy(r.mem.b[0x0100:], e.Fixed)
	return r
}

// one runs a single point with a complete-state comparison.
func (r *c03Runner) one(a, b uint16, f uint8) []string {
	in := &r.e.Inst
	r.cpu.States = r.base
	r.cpu.AF.Lo = f
	doubling := in.Src16 == in.Dst16 || in.Src16 == refz80.RNone
	if !doubling {
		setRP(&r.cpu, in.Src16, b)
	} else {
		b = a
	}
	setRP(&r.cpu, in.Dst16, a)
	pre := r.cpu.States
	if p := c02Step(&r.cpu); p != nil {
		return []string{fmt.Sprintf("Step panicked: %v", p)}
	}
	res, nf := c03Expect(in, a, b, f)
	exp := z80.CPU{States: pre}
	setRP(&exp, in.Dst16, res)
	exp.AF.Lo = nf
	exp.PC = pre.PC + uint16(in.Len)
	exp.IR.Lo = r.cpu.IR.Lo
	if exp.States == r.cpu.States {
		return nil
	}
	gs := fromCPU(&r.cpu)
	es := fromCPU(&exp)
	return []string{fmt.Sprintf("%s dst=%04X src=%04X F=%s: want result %04X F=%s got %04X F=%s", r.e.Name, a, b, flagStr(f), res, flagStr(nf), getRP(&r.cpu, in.Dst16), flagStr(r.cpu.AF.Lo)),
		fmt.Sprintf("want state %v", stateMap(&es)), fmt.Sprintf("got state  %v", stateMap(&gs))}
}

// l16 is the boundary lattice: all values with <=2 bits set or <=2 bits clear
// plus the nibble/sign boundaries and their neighbours.
func l16() []uint16 {
	seen := map[uint16]bool{}
	var out []uint16
	add := func(v uint16) {
		if !seen[v] {
			seen[v] = true
			out = append(out, v)
		}
	}
	add(0)
	add(0xFFFF)
	for i := 0; i < 16; i++ {
		add(1 << uint(i))
		add(^uint16(1 << uint(i)))
		for j := i + 1; j < 16; j++ {
			add(1<<uint(i) | 1<<uint(j))
			add(^uint16(1<<uint(i) | 1<<uint(j)))
		}
	}
	for _, v := range []uint16{0x0FFF, 0x1000, 0x7FFF, 0x8000, 0x00FF, 0x0100, 0xF000, 0xEFFF} {
		add(v - 1)
		add(v)
		add(v + 1)
	}
	return out
}

func checkC03(c *Ctx) {
	set, err := implementedSet(c)
	if err != nil {
		fmt.Println("framework error:", err)
		c.Capped("framework error: " + err.Error())
		return
	}
	var encs []*Enc
	for i := range set.Encs {
		if c03Kind(set.Encs[i].Inst.Kind) {
			encs = append(encs, &set.Encs[i])
		}
	}
	L := l16()
	fs := c02FSet(c.Quick())
	if c.Quick() {
		// carry-in both ways x every preserved bit both ways, plus single-bit patterns
		fs = []uint8{0x00, 0xFF, 0x01, 0xFE, 0xC4, 0x3B, 0x10, 0x02, 0x28, 0xD7, 0x80, 0x40, 0x04, 0x08, 0x20, 0x11}
	}
	c.Rule = fmt.Sprintf("%d encodings (ADD HL/IX/IY,ss; ADC/SBC HL,ss; INC/DEC ss/IX/IY). (a) boundary lattice: both operands over L16 (%d values: <=2 bits set or clear, nibble/sign boundaries with neighbours) x %d F values, complete CPU state compared with first-principles 17-bit arithmetic; (b) complete space: every destination value; quick: x every L16 source value x F in {00,FF} for the two-register forms and all 2^16 x 16 F for doubling forms and INC/DEC; thorough: complete 2^32 operand pairs x F in {00,FF} and all 2^16 x 256 F. Non-trivial = result differs from the destination operand or F changes (counted).", len(encs), len(L), len(fs))
	c.Bound = "L16 lattice" + map[bool]string{true: "", false: " + complete 2^32 x {00,FF}"}[c.Quick()]
	var evals, nontriv [16 * 8]int64 // indexed by wi*8: one cache line per worker
	// (a) lattice
	parallel(int64(len(encs)), 1, 16, func(wi int, lo, hi int64) {
		var ev, nt int64
		defer func() { evals[wi*8] += ev; nontriv[wi*8] += nt }()
		for ei := lo; ei < hi; ei++ {
			e := encs[ei]
			r := newC03Runner(e, int(ei)%4)
			in := &e.Inst
			doubling := in.Src16 == in.Dst16 || in.Src16 == refz80.RNone
			bs := L
			if doubling {
				bs = L[:1]
			}
		encLoop:
			for _, a := range L {
				for _, b := range bs {
					for _, f := range fs {
						d := r.one(a, b, f)
						ev++
						if d != nil {
							c.Report("c03/arith16:"+e.Name, int64(a)<<24|int64(b)<<8|int64(f), "", c03Case{e.Name, a, b, f}, cloneStrings(d))
							break encLoop
						}
						if getRP(&r.cpu, in.Dst16) != a || r.cpu.AF.Lo != f {
							nt++
						}
					}
				}
			}
		}
	}, nil)
	full := int64(0)
	var capped int32
	var completed []string
	{
		for _, e := range encs {
			if c.NViolations() > 0 {
				break
			}
			if atomic.LoadInt32(&capped) != 0 {
				break
			}
			e := e
			in := &e.Inst
			doubling := in.Src16 == in.Dst16 || in.Src16 == refz80.RNone
			fset := []uint8{0x00, 0xFF}
			if doubling {
				fset = c02FSet(c.Quick())
			}
			// quick: every destination value x the boundary lattice as source; thorough: every pair
			var bvals []uint16
			if c.Quick() && !doubling {
				bvals = L
			}
			var failed int32
			runners := make([]*c03Runner, 16)
			parallel(65536, 64, 16, func(wi int, lo, hi int64) {
				if runners[wi] == nil {
					runners[wi] = newC03Runner(e, 1)
				}
				r := runners[wi]
				cpu := &r.cpu
				var ev, nt int64
				defer func() { evals[wi*8] += ev; nontriv[wi*8] += nt }()
				if r.live == nil {
					r.live = newLiveSlot()
				}
				defer r.live.reset()
				for ai := lo; ai < hi; ai++ {
					a := uint16(ai)
					r.live.reset()
					r.prog.Enc, r.prog.A = e.Name, a
					r.live.enter(&r.prog)
					bmax := 65536
					if doubling {
						bmax = 1
					} else if bvals != nil {
						bmax = len(bvals)
					}
					for bi := 0; bi < bmax; bi++ {
						b := uint16(bi)
						if doubling {
							b = a
						} else if bvals != nil {
							b = bvals[bi]
						}
						r.prog.B = b
						for _, f := range fset {
							cpu.PC = 0x0100
							cpu.AF.Lo = f
							if !doubling {
								setRP(cpu, in.Src16, b)
							}
							setRP(cpu, in.Dst16, a)
							cpu.Step()
							res, nf := c03Expect(in, a, b, f)
							if getRP(cpu, in.Dst16) != res || cpu.AF.Lo != nf || (!doubling && getRP(cpu, in.Src16) != b) || cpu.PC != 0x0100+uint16(in.Len) {
								d := r.one(a, b, f)
								if d == nil {
									d = []string{fmt.Sprintf("%s dst=%04X src=%04X F=%02X: fast path mismatch (result %04X F=%02X)", e.Name, a, b, f, getRP(cpu, in.Dst16), cpu.AF.Lo)}
								}
								c.Report("c03/arith16:"+e.Name, int64(a)<<24|int64(b)<<8|int64(f), "", c03Case{e.Name, a, b, f}, cloneStrings(d))
								atomic.StoreInt32(&failed, 1)
								return
							}
							if res != a || nf != f {
								nt++
							}
						}
					}
					ev += int64(bmax * len(fset))
				}
				if c.TimeUp() {
					atomic.StoreInt32(&capped, 1)
				}
			}, func() bool { return atomic.LoadInt32(&failed) != 0 || atomic.LoadInt32(&capped) != 0 })
			if atomic.LoadInt32(&capped) != 0 {
				c.Capped("time cap reached in the complete-space sweep at encoding " + e.Name)
				break
			}
			completed = append(completed, e.Name)
			full++
		}
		c.Set("complete_space_encodings", completed)
	}
	for i := range evals {
		c.Evaluations += evals[i]
		c.Nontrivial += nontriv[i]
	}
	_ = full
	c.Transitions = c.Evaluations
	c.Traces = c.Evaluations
	c.States = c.Evaluations
	c.Set("encodings_checked", len(encs))
	c.Exhaustive = true
	c.Sample(c03Case{"ED 7A (ADC HL,SP)", 0x7FFF, 0x0000, 0x01})
	c.Sample(c03Case{"DD 29 (ADD IX,IX)", 0x8000, 0x8000, 0xFF})
	c.Sample(c03Case{"1B (DEC DE)", 0x0000, 0, 0xD7})
	c.Assume("expected values are refz80's first-principles 17-bit arithmetic")
}

func replayC03(c *Ctx, raw []byte) []string {
	var cs c03Case
	if err := json.Unmarshal(raw, &cs); err != nil {
		return []string{"bad replay file"}
	}
	for _, e := range allEncodings() {
		if e.Name == cs.Enc {
			e := e
			return newC03Runner(&e, 0).one(cs.A, cs.B, cs.F)
		}
	}
	return []string{"unknown encoding " + cs.Enc}
}
