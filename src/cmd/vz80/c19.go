package main

import (
	"bytes"
	"context"
	"fmt"
	"os"
	"os/exec"
	"path/filepath"
	"strings"
	"sync/atomic"
	"time"
)

// C19: cim2bin and cim2cas wrap any image in a correct MSX container, body
// unaltered. ENUM over the command binaries built from the current tree (one
// process per case): lengths x offsets x contents x names, against a header
// model written here.
func init() {
	register("C19", checkC19)
	replayers["c19/container"] = func(c *Ctx, raw []byte) []string {
		return []string{"C19 cases run the built command binaries; re-run `bin/check C19`; see the diff in the file"}
	}
}

type c19Case struct {
	Tool    string `json:"tool"`
	Len     int    `json:"len"`
	Off     int    `json:"off"` // -1: flag omitted (default 0xA000)
	Content int    `json:"content"`
	Name    string `json:"name"`
	NoName  bool   `json:"name_omitted"`
	File    string `json:"file"`
	// OutExists: the output file exists already and is longer than the container (a rebuild after the
	// program shrank); InPlace: 1 the output path is the input path (convert in place), 2 the output path
	// is a symbolic link to the input file
	// Name2: -nam is given twice on the command line, first Name2 then Name (the flag package lets the last one win)
	Name2 string `json:"name_given_first,omitempty"`
	// FullDisk: the output goes to /dev/full (every write fails with ENOSPC): the tool cannot emit the container
	// and must say so with a non-zero exit status
	FullDisk bool `json:"output_device_full,omitempty"`
	// TmpDir: the tool runs with TMPDIR pointing at this directory (another file system than the output's)
	TmpDir string `json:"tmpdir,omitempty"`
	// GoRun: the tool is started the way its Makefile does it: `go run <tool>.go ...` in the tool's directory
	GoRun     bool `json:"go_run_single_file,omitempty"`
	OutExists bool `json:"output_exists_longer,omitempty"`
	InPlace   int  `json:"in_place,omitempty"`
}

// c19Stdin: input path of the cases whose image is piped in.
const c19Stdin = "/dev/stdin"

func c19Content(kind, n int) []byte {
	b := make([]byte, n)
	switch kind {
	case 1:
		for i := range b {
			b[i] = byte(i*13 + i/256)
		}
	case 2:
		for i := range b {
			b[i] = 0xFF
		}
	case 3: // header look-alike
		pat := []byte{0xFE, 0x00, 0xA0, 0xFF, 0xA0, 0x00, 0xA0, 0x1f, 0xa6, 0xde, 0xba, 0xcc, 0x13, 0x7d, 0x74, 0xd0, 0xd0, 0x0A, 0x0D, 0x1A, 0x00}
		for i := range b {
			b[i] = pat[i%len(pat)]
		}
	}
	return b
}

func c19Model(cs *c19Case, body []byte) []byte {
	off := cs.Off
	if off < 0 {
		off = 0xA000
	}
	start := uint16(off)
	end := start + uint16(len(body)) - 1
	w16 := func(v uint16) []byte { return []byte{byte(v), byte(v >> 8)} }
	var out []byte
	if cs.Tool == "cim2bin" {
		out = append(out, 0xFE)
	} else {
		sync := []byte{0x1f, 0xa6, 0xde, 0xba, 0xcc, 0x13, 0x7d, 0x74}
		out = append(out, sync...)
		for i := 0; i < 10; i++ {
			out = append(out, 0xD0)
		}
		name := cs.Name
		if cs.NoName || name == "" {
			name = cs.File // default: the input file name as given on the command line
		}
		nb := []byte(name)
		if len(nb) > 6 {
			nb = nb[:6]
		}
		for len(nb) < 6 {
			nb = append(nb, ' ')
		}
		out = append(out, nb...)
		out = append(out, sync...)
	}
	out = append(out, w16(start)...)
	out = append(out, w16(end)...)
	out = append(out, w16(start)...)
	return append(out, body...)
}

func c19Run(dir string, bin string, cs *c19Case) []string {
	body := c19Content(cs.Content, cs.Len)
	in := filepath.Join(dir, cs.File)
	outp := filepath.Join(dir, "out.bin")
	os.Remove(outp)
	outArg := "out.bin"
	if cs.OutExists {
		junk := bytes.Repeat([]byte{0xEE}, 70000)
		if err := os.WriteFile(outp, junk, 0o644); err != nil {
			return []string{"framework: " + err.Error()}
		}
	}
	if cs.FullDisk {
		outArg = "/dev/full"
	}
	switch cs.InPlace {
	case 1:
		outArg, outp = cs.File, in
	case 2:
		if err := os.Symlink(cs.File, outp); err != nil {
			return []string{"framework: " + err.Error()}
		}
		defer os.Remove(outp)
	}
	piped := cs.File == c19Stdin
	if cs.File == "link.cim" {
		// the image is reached through a symbolic link
		target := filepath.Join(dir, "target.dat")
		if err := os.WriteFile(target, body, 0o644); err != nil {
			return []string{"framework: " + err.Error()}
		}
		defer os.Remove(target)
		os.Remove(in)
		if err := os.Symlink("target.dat", in); err != nil {
			return []string{"framework: " + err.Error()}
		}
		defer os.Remove(in)
	} else if !piped {
		if err := os.WriteFile(in, body, 0o644); err != nil {
			return []string{"framework: " + err.Error()}
		}
		defer os.Remove(in)
	}
	var args []string
	args = append(args, "-cim", cs.File)
	if cs.Tool == "cim2bin" {
		args = append(args, "-bin", outArg)
	} else {
		args = append(args, "-cas", outArg)
		if cs.Name2 != "" {
			args = append(args, "-nam", cs.Name2)
		}
		if !cs.NoName {
			args = append(args, "-nam", cs.Name)
		}
	}
	if cs.Off >= 0 {
		args = append(args, "-off", fmt.Sprint(cs.Off))
	}
	// the tools finish in milliseconds; two minutes only guards the check against a tool that never exits
	ctx, cancel := context.WithTimeout(context.Background(), 2*time.Minute)
	defer cancel()
	cmd := exec.CommandContext(ctx, bin, args...)
	cmd.Dir = dir
	if cs.TmpDir != "" {
		cmd.Env = append(os.Environ(), "TMPDIR="+cs.TmpDir)
	}
	if cs.GoRun {
		// absolute paths for the files, the tool's own directory as working directory
		repo := os.Getenv("VERIF_REPO")
		if repo == "" {
			repo = "/repo"
		}
		// what the tool's own Makefile runs: `go run <tool>.go` on the pinned tree; a tree whose Makefile says
		// `go run .` (or names other files) is started that way; no recipe, no case
		target := c19MakefileTarget(filepath.Join(repo, "cmd", cs.Tool, "Makefile"))
		if len(target) == 0 {
			return nil
		}
		abs := append(append([]string{"run"}, target...), args...)
		for i, a := range abs {
			if a == cs.File || a == outArg {
				abs[i] = filepath.Join(dir, a)
			}
		}
		cmd = exec.CommandContext(ctx, "go", abs...)
		cmd.Dir = filepath.Join(repo, "cmd", cs.Tool)
		cmd.Env = append(os.Environ(), "GOFLAGS=-mod=mod", "GOPROXY=off", "GOSUMDB=off", "GOTOOLCHAIN=local")
	}
	if piped {
		// the image arrives through a pipe: its size is only known once it has been read
		cmd.Stdin = bytes.NewReader(body)
	}
	var errb bytes.Buffer
	cmd.Stderr = &errb
	if cs.FullDisk {
		if err := cmd.Run(); err == nil {
			return []string{fmt.Sprintf("%s %v: every write to the output fails (no space left on device), yet the exit status is 0: the container was not emitted and nobody is told", cs.Tool, args)}
		}
		return nil
	}
	if err := cmd.Run(); err != nil {
		return []string{fmt.Sprintf("%s %v: exit %v: %s", cs.Tool, args, err, errb.String())}
	}
	got, err := os.ReadFile(outp)
	if err != nil {
		return []string{fmt.Sprintf("%s %v: no output file", cs.Tool, args)}
	}
	want := c19Model(cs, body)
	if bytes.Equal(got, want) {
		return nil
	}
	d := []string{fmt.Sprintf("%s %v: output differs from the container model: length got %d want %d", cs.Tool, args, len(got), len(want))}
	for i := 0; i < len(got) && i < len(want); i++ {
		if got[i] != want[i] {
			hi := i + 8
			if hi > len(got) {
				hi = len(got)
			}
			hw := i + 8
			if hw > len(want) {
				hw = len(want)
			}
			d = append(d, fmt.Sprintf("first difference at byte %d (header is %d bytes): got % X want % X", i, len(want)-len(body), got[i:hi], want[i:hw]))
			break
		}
	}
	return d
}

func checkC19(c *Ctx) {
	c.Level = "exploration"
	bins := map[string]string{"cim2bin": os.Getenv("VERIF_CIM2BIN"), "cim2cas": os.Getenv("VERIF_CIM2CAS")}
	for t, b := range bins {
		if _, err := os.Stat(b); b == "" || err != nil {
			fmt.Println("framework: command binary for", t, "not built; bin/check C19 builds it from the current tree")
			c.Capped("command binaries not built")
			return
		}
	}
	root := os.Getenv("VERIF_RUN_DIR")
	if root == "" {
		root = filepath.Join(c.Verif, "build", "tmp")
	}
	offs := []int{0, 1, 0x4000, -1, 0xA000, 0xFFFE, 0xFFFF}
	var cases []c19Case
	// names are byte strings: the six-byte field is filled byte-wise (multi-byte UTF-8 and invalid UTF-8 included)
	names := []string{"", "A", "AB", "ABCDE", "ABCDEF", "ABCDEFG", "ABCDEFGHIJKL", "a b", "x.cim", "\u00e9", "abcd\u00e9", "abcde\u00e9", "\u30c6\u30b9\u30c8", "ab\xffcd", "%s%d", "-x"}
	for _, tool := range []string{"cim2bin", "cim2cas"} {
		for _, off := range offs {
			o := off
			if o < 0 {
				o = 0xA000
			}
			lens := []int{1, 2, 255, 256, 4096, 65535 - o, 65536 - o}
			if !c.Quick() {
				lens = append(lens, 3, 127, 128, 257, 4095, 4097, 8192, 32768, 65534-o)
			}
			for _, l := range lens {
				if l < 1 || o+l > 65536 {
					continue
				}
				for content := 0; content < 4; content++ {
					if c.Quick() && content > 1 && l > 256 && l != 65536-o {
						continue
					}
					file := "in.cim"
					if tool == "cim2bin" {
						cases = append(cases, c19Case{Tool: tool, Len: l, Off: off, Content: content, File: file})
						continue
					}
					cases = append(cases, c19Case{Tool: tool, Len: l, Off: off, Content: content, NoName: true, File: file})
					if content == 0 || !c.Quick() {
						for _, nm := range names {
							cases = append(cases, c19Case{Tool: tool, Len: l, Off: off, Content: content, Name: nm, File: file})
						}
						// default name shorter than six characters, and one longer than six
						cases = append(cases, c19Case{Tool: tool, Len: l, Off: off, Content: content, NoName: true, File: "z.c"})
						cases = append(cases, c19Case{Tool: tool, Len: l, Off: off, Content: content, NoName: true, File: "longname.cim"})
					}
				}
			}
		}
	}
	// the image is not a regular file: piped in through /dev/stdin, or reached through a symbolic link
	if _, err := os.Stat(c19Stdin); err == nil {
		for _, tool := range []string{"cim2bin", "cim2cas"} {
			for _, off := range []int{0, -1, 0xFF00} {
				for _, l := range []int{1, 2, 255, 256, 4096, 70000} {
					o := off
					if o < 0 {
						o = 0xA000
					}
					if o+l > 65536 {
						continue
					}
					for _, file := range []string{c19Stdin, "link.cim"} {
						cases = append(cases, c19Case{Tool: tool, Len: l, Off: off, Content: 1, NoName: tool == "cim2cas" && l%2 == 1, Name: "PIPE", File: file})
					}
				}
			}
		}
	} else {
		c.Set("piped_input", "skipped: no /dev/stdin here")
	}
	// -nam given twice (the last one counts); TMPDIR on another file system than the output; the tools started as their Makefiles do (go run <tool>.go); the output device is full
	for _, l := range []int{1, 300} {
		for _, pair := range [][2]string{{"GAME01", "AB"}, {"GAME01", ""}, {"AB", "GAME01"}, {"ABCDEFGHIJ", "x"}, {"x", "ABCDEFGHIJ"}} {
			cases = append(cases, c19Case{Tool: "cim2cas", Len: l, Off: -1, Content: 1, Name: pair[1], Name2: pair[0], File: "g.cim"})
		}
	}
	if _, err := os.Stat("/dev/full"); err == nil {
		for _, tool := range []string{"cim2bin", "cim2cas"} {
			for _, l := range []int{1, 100, 4000, 4089, 4090, 5000, 40000} {
				cases = append(cases, c19Case{Tool: tool, Len: l, Off: -1, Content: 1, Name: "FULL", File: "in.cim", FullDisk: true})
			}
		}
	}
	// TMPDIR on another file system than the output (a tmpfs /tmp and a project in $HOME)
	if st, err := os.Stat("/dev/shm"); err == nil && st.IsDir() {
		for _, tool := range []string{"cim2bin", "cim2cas"} {
			for _, l := range []int{1, 5000} {
				cases = append(cases, c19Case{Tool: tool, Len: l, Off: -1, Content: 1, Name: "TMP", File: "in.cim", TmpDir: "/dev/shm"})
				cases = append(cases, c19Case{Tool: tool, Len: l, Off: -1, Content: 1, Name: "TMP", File: "in.cim", TmpDir: "/dev/shm", OutExists: true})
			}
		}
	}
	// the way the tools' own Makefiles start them: go run <tool>.go in the tool's directory
	for _, tool := range []string{"cim2bin", "cim2cas"} {
		cases = append(cases, c19Case{Tool: tool, Len: 300, Off: -1, Content: 1, Name: "GORUN", File: "in.cim", GoRun: true})
	}
	// the output file exists already and is longer; the image is converted in place
	for _, tool := range []string{"cim2bin", "cim2cas"} {
		for _, l := range []int{1, 37, 4096, 65536 - 0xA000} {
			for _, off := range []int{-1, 0} {
				cases = append(cases, c19Case{Tool: tool, Len: l, Off: off, Content: 1, Name: "OLD", File: "in.cim", OutExists: true})
				cases = append(cases, c19Case{Tool: tool, Len: l, Off: off, Content: 3, Name: "SAME", File: "in.cim", InPlace: 1})
				cases = append(cases, c19Case{Tool: tool, Len: l, Off: off, Content: 1, NoName: true, File: "in.cim", InPlace: 2})
			}
		}
	}
	var evals [16 * 8]int64
	var failed int32
	parallel(int64(len(cases)), 8, 16, func(wi int, lo, hi int64) {
		dir := filepath.Join(root, fmt.Sprintf("c19-%d", wi))
		os.MkdirAll(dir, 0o755)
		for i := lo; i < hi; i++ {
			cs := &cases[i]
			d := c19Run(dir, bins[cs.Tool], cs)
			evals[wi*8]++
			if d != nil {
				atomic.StoreInt32(&failed, 1)
				c.Report("c19/container:"+cs.Tool, i, "", cs, d)
			}
		}
	}, nil)
	for i := range evals {
		c.Evaluations += evals[i]
	}
	for wi := 0; wi < 16; wi++ {
		os.RemoveAll(filepath.Join(root, fmt.Sprintf("c19-%d", wi)))
	}
	c.Nontrivial = c.Evaluations
	c.States = c.Evaluations
	c.Transitions = c.Evaluations
	c.Traces = c.Evaluations
	c.Exhaustive = true
	c.Rule = fmt.Sprintf("%d runs of the command binaries built from the current tree: tools {cim2bin, cim2cas} x offsets {0,1,0x4000, flag omitted (=0xA000), 0xA000, 0xFFFE, 0xFFFF} x image lengths {1,2,255,256,4096,65535-off,65536-off (end address = 0xFFFF)} (thorough: 9 more) x contents {zeros, ramp, FF, header look-alike} x for cim2cas names {omitted (default = file name, also shorter and longer than six), \"\", 1,2,5,6,7,12 characters, with a space, with a dot}; the image also piped in through /dev/stdin and reached through a symbolic link; the output file already existing and longer than the container; conversion in place (output path = input path, or a symbolic link to it); -nam given twice (the last one counts); TMPDIR on another file system than the output; the tools started as their Makefiles do (go run <tool>.go); the output on a full device (/dev/full: non-zero exit status required); output compared byte for byte with a header model (0xFE/start/end/exec; sync, 10 x D0, name[6], sync, start/end/exec) + unmodified body. All cases are distinct and non-trivial (each produces a container).", len(cases))
	c.Bound = "lattice " + c.Tier
	c.Sample(cases[0])
	c.Sample(cases[len(cases)-1])
	c.Assume("only images whose end address fits 16 bits are in scope (statement)")
}

// c19MakefileTarget returns the arguments that follow `go run` in the tool's Makefile up to the first flag.
func c19MakefileTarget(path string) []string {
	raw, err := os.ReadFile(path)
	if err != nil {
		return nil
	}
	for _, line := range strings.Split(string(raw), "\n") {
		f := strings.Fields(line)
		for i := 0; i+2 < len(f); i++ {
			if f[i] == "go" && f[i+1] == "run" {
				var t []string
				for _, a := range f[i+2:] {
					if strings.HasPrefix(a, "-") {
						break
					}
					t = append(t, a)
				}
				return t
			}
		}
	}
	return nil
}
