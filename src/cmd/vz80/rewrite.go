package main

import (
	"bytes"
	"encoding/json"
	"fmt"
	"go/ast"
	"go/format"
	"go/parser"
	"go/token"
	"os"
	"path/filepath"
	"strconv"
	"strings"
)

// `vz80 rewrite <srcdir> <outdir>`: the build-time source rewrite of DESIGN
// §4.3. Every non-test .go file of the package in srcdir that uses
// concurrency (go statements, channel receives, sync/atomic, context
// constructors) is re-emitted under outdir with
//   - import "sync/atomic"  -> shim/atomic, "context" -> shim/context,
//   - go f(args)            -> rt.Go(func(){ f(tmp...) }),
//   - <-ch / v,ok := <-ch   -> rt.Recv(ch) / rt.Recv2(ch),
//   - plain reads/writes of local variables captured by a go function
//     literal -> *rt.R(&v) / *rt.W(&v).
// Constructs it does not model are reported in rewrite.json; the C13 check
// then does not claim exhaustiveness.

const shimBase = "github.com/koron-go/z80/internal/verif/shim/"

type rewriteReport struct {
	Files       []string `json:"files_rewritten"`
	GoStmts     int      `json:"go_statements"`
	Receives    int      `json:"channel_receives"`
	Wrapped     int      `json:"shared_variable_accesses_wrapped"`
	SharedVars  []string `json:"shared_variables"`
	AtomicFiles int      `json:"files_using_sync_atomic"`
	CtxFiles    int      `json:"files_using_context_constructors"`
	Unsupported []string `json:"unsupported_constructs"`
}

func rewriteMain(src, out string) int {
	rep, err := rewritePackage(src, out)
	if err != nil {
		fmt.Fprintln(os.Stderr, "rewrite:", err)
		return 2
	}
	b, _ := json.MarshalIndent(rep, "", " ")
	os.WriteFile(filepath.Join(out, "rewrite.json"), b, 0o644)
	fmt.Printf("rewrite: %d files, %d go statements, %d receives, %d shared accesses, unsupported: %v\n", len(rep.Files), rep.GoStmts, rep.Receives, rep.Wrapped, rep.Unsupported)
	return 0
}

func rewritePackage(src, out string) (*rewriteReport, error) {
	rep := &rewriteReport{}
	ents, err := os.ReadDir(src)
	if err != nil {
		return nil, err
	}
	os.MkdirAll(out, 0o755)
	for _, e := range ents {
		n := e.Name()
		if e.IsDir() || !strings.HasSuffix(n, ".go") || strings.HasSuffix(n, "_test.go") {
			continue
		}
		path := filepath.Join(src, n)
		code, err := os.ReadFile(path)
		if err != nil {
			return nil, err
		}
		res, changed, err := rewriteFile(n, code, rep)
		if err != nil {
			return nil, fmt.Errorf("%s: %v", n, err)
		}
		if changed {
			if err := os.WriteFile(filepath.Join(out, n), res, 0o644); err != nil {
				return nil, err
			}
			rep.Files = append(rep.Files, n)
		}
	}
	return rep, nil
}

func importName(f *ast.File, path string) (string, *ast.ImportSpec) {
	for _, im := range f.Imports {
		p, _ := strconv.Unquote(im.Path.Value)
		if p == path {
			if im.Name != nil {
				return im.Name.Name, im
			}
			return path[strings.LastIndex(path, "/")+1:], im
		}
	}
	return "", nil
}

func rewriteFile(name string, code []byte, rep *rewriteReport) ([]byte, bool, error) {
	fset := token.NewFileSet()
	f, err := parser.ParseFile(fset, name, code, parser.ParseComments)
	if err != nil {
		return nil, false, err
	}
	changed := false
	needRT := false
	// imports
	if _, im := importName(f, "sync/atomic"); im != nil {
		nm := "atomic"
		if im.Name != nil {
			nm = im.Name.Name
		}
		im.Path.Value = strconv.Quote(shimBase + "atomic")
		im.Name = ast.NewIdent(nm)
		rep.AtomicFiles++
		changed = true
	}
	if sname, im := importName(f, "sync"); im != nil {
		// Mutex, RWMutex, WaitGroup, Once, Locker are modelled by shim/sync; anything else is not
		okSync := true
		ast.Inspect(f, func(n ast.Node) bool {
			if se, ok := n.(*ast.SelectorExpr); ok {
				if id, ok := se.X.(*ast.Ident); ok && id.Name == sname && id.Obj == nil {
					switch se.Sel.Name {
					case "Mutex", "RWMutex", "WaitGroup", "Once", "Locker":
					default:
						okSync = false
						rep.Unsupported = append(rep.Unsupported, fmt.Sprintf("%s: sync.%s is not modelled", name, se.Sel.Name))
					}
				}
			}
			return true
		})
		if okSync {
			im.Path.Value = strconv.Quote(shimBase + "sync")
			im.Name = ast.NewIdent(sname)
			changed = true
		}
	}
	if _, im := importName(f, "time"); im != nil {
		ast.Inspect(f, func(n ast.Node) bool {
			if se, ok := n.(*ast.SelectorExpr); ok {
				if id, ok := se.X.(*ast.Ident); ok && id.Name == "time" && id.Obj == nil {
					switch se.Sel.Name {
					case "After", "AfterFunc", "NewTimer", "NewTicker", "Tick", "Sleep":
						rep.Unsupported = append(rep.Unsupported, fmt.Sprintf("%s: time.%s is not modelled", name, se.Sel.Name))
					}
				}
			}
			return true
		})
	}
	ctxName, ctxIm := importName(f, "context")
	if ctxIm != nil {
		uses := false
		ast.Inspect(f, func(n ast.Node) bool {
			if se, ok := n.(*ast.SelectorExpr); ok {
				if id, ok := se.X.(*ast.Ident); ok && id.Name == ctxName && id.Obj == nil {
					switch se.Sel.Name {
					case "WithCancel", "WithTimeout", "WithDeadline", "AfterFunc":
						uses = true
					case "WithCancelCause", "WithTimeoutCause", "WithDeadlineCause":
						rep.Unsupported = append(rep.Unsupported, fmt.Sprintf("%s: context.%s is not modelled", name, se.Sel.Name))
					}
				}
			}
			return true
		})
		if uses {
			ctxIm.Path.Value = strconv.Quote(shimBase + "context")
			ctxIm.Name = ast.NewIdent(ctxName)
			rep.CtxFiles++
			changed = true
		}
	}
	// select statements, runtime.* are not modelled
	ast.Inspect(f, func(n ast.Node) bool {
		switch x := n.(type) {
		case *ast.SelectStmt:
			if !pollingSelect(x) {
				rep.Unsupported = append(rep.Unsupported, fmt.Sprintf("%s:%d: select statement without default, or with a send case, is not modelled", name, fset.Position(x.Pos()).Line))
			}
		case *ast.SendStmt:
			rep.Unsupported = append(rep.Unsupported, fmt.Sprintf("%s:%d: channel send is not modelled", name, fset.Position(x.Pos()).Line))
		case *ast.SelectorExpr:
			if id, ok := x.X.(*ast.Ident); ok && id.Name == "runtime" && id.Obj == nil && x.Sel.Name != "Gosched" {
				rep.Unsupported = append(rep.Unsupported, fmt.Sprintf("%s: runtime.%s is not modelled", name, x.Sel.Name))
			}
		}
		return true
	})
	// per function: go statements, receives, captured variables
	for _, decl := range f.Decls {
		fd, ok := decl.(*ast.FuncDecl)
		if !ok || fd.Body == nil {
			continue
		}
		// 1. variables captured by go function literals
		shared := map[*ast.Object]bool{}
		ast.Inspect(fd.Body, func(n ast.Node) bool {
			gs, ok := n.(*ast.GoStmt)
			if !ok {
				return true
			}
			lit, ok := gs.Call.Fun.(*ast.FuncLit)
			if !ok {
				return true
			}
			ast.Inspect(lit.Body, func(m ast.Node) bool {
				id, ok := m.(*ast.Ident)
				if !ok || id.Obj == nil || id.Obj.Kind != ast.Var {
					return true
				}
				dp := declPos(id.Obj)
				if dp == token.NoPos {
					return true
				}
				// declared in the enclosing function, outside the literal
				if dp >= fd.Pos() && dp < fd.End() && !(dp >= lit.Pos() && dp < lit.End()) {
					shared[id.Obj] = true
				}
				return true
			})
			return true
		})
		for o := range shared {
			rep.SharedVars = append(rep.SharedVars, fd.Name.Name+"."+o.Name)
		}
		// 2. rewrite expressions
		n := rewriteNode(fd.Body, shared, rep, fset, name)
		if n > 0 {
			changed = true
			needRT = true
		}
	}
	if !changed {
		return nil, false, nil
	}
	// an import whose only uses were rewritten away (runtime.Gosched) must go
	if rname, im := importName(f, "runtime"); im != nil {
		used := false
		ast.Inspect(f, func(n ast.Node) bool {
			if se, ok := n.(*ast.SelectorExpr); ok {
				if id, ok := se.X.(*ast.Ident); ok && id.Name == rname && id.Obj == nil {
					used = true
				}
			}
			return true
		})
		if !used {
			for _, d := range f.Decls {
				if gd, ok := d.(*ast.GenDecl); ok && gd.Tok == token.IMPORT {
					var keep []ast.Spec
					for _, sp := range gd.Specs {
						if sp != ast.Spec(im) {
							keep = append(keep, sp)
						}
					}
					gd.Specs = keep
				}
			}
		}
	}
	if needRT {
		addImport(f, "rt", shimBase+"rt")
	}
	var buf bytes.Buffer
	buf.WriteString("// Code generated by `vz80 rewrite` from " + name + " for the C13 check; DO NOT EDIT.\n")
	if err := format.Node(&buf, fset, f); err != nil {
		return nil, false, err
	}
	return buf.Bytes(), true, nil
}

// pollingSelect reports whether s is a non-blocking select (has a default clause) whose other cases
// are all receives. Such a select executes atomically under the cooperative scheduler, so a
// scheduling point in front of it is all the instrumentation it needs.
func pollingSelect(s *ast.SelectStmt) bool {
	hasDefault := false
	for _, c := range s.Body.List {
		cc, ok := c.(*ast.CommClause)
		if !ok {
			return false
		}
		switch x := cc.Comm.(type) {
		case nil:
			hasDefault = true
		case *ast.ExprStmt:
			if u, ok := x.X.(*ast.UnaryExpr); !ok || u.Op != token.ARROW {
				return false
			}
		case *ast.AssignStmt:
			if len(x.Rhs) != 1 {
				return false
			}
			if u, ok := x.Rhs[0].(*ast.UnaryExpr); !ok || u.Op != token.ARROW {
				return false
			}
		default:
			return false
		}
	}
	return hasDefault
}

func declPos(o *ast.Object) token.Pos {
	switch d := o.Decl.(type) {
	case *ast.AssignStmt:
		return d.Pos()
	case *ast.ValueSpec:
		return d.Pos()
	case *ast.Field:
		return d.Pos()
	}
	return token.NoPos
}

func addImport(f *ast.File, name, path string) {
	spec := &ast.ImportSpec{Name: ast.NewIdent(name), Path: &ast.BasicLit{Kind: token.STRING, Value: strconv.Quote(path)}}
	for _, d := range f.Decls {
		if gd, ok := d.(*ast.GenDecl); ok && gd.Tok == token.IMPORT {
			gd.Specs = append(gd.Specs, spec)
			if !gd.Lparen.IsValid() {
				gd.Lparen = gd.Pos()
				gd.Rparen = gd.End()
			}
			f.Imports = append(f.Imports, spec)
			return
		}
	}
	gd := &ast.GenDecl{Tok: token.IMPORT, Specs: []ast.Spec{spec}}
	f.Decls = append([]ast.Decl{gd}, f.Decls...)
	f.Imports = append(f.Imports, spec)
}

func rtCall(fn string, args ...ast.Expr) *ast.CallExpr {
	return &ast.CallExpr{Fun: &ast.SelectorExpr{X: ast.NewIdent("rt"), Sel: ast.NewIdent(fn)}, Args: args}
}

// rewriteNode rewrites body in place and returns the number of rewrites.
func rewriteNode(body *ast.BlockStmt, shared map[*ast.Object]bool, rep *rewriteReport, fset *token.FileSet, fname string) int {
	count := 0
	isShared := func(e ast.Expr) bool {
		id, ok := e.(*ast.Ident)
		return ok && id.Obj != nil && shared[id.Obj]
	}
	wrapR := func(e ast.Expr) ast.Expr {
		rep.Wrapped++
		count++
		return &ast.StarExpr{X: rtCall("R", &ast.UnaryExpr{Op: token.AND, X: e})}
	}
	wrapW := func(e ast.Expr) ast.Expr {
		rep.Wrapped++
		count++
		return &ast.StarExpr{X: rtCall("W", &ast.UnaryExpr{Op: token.AND, X: e})}
	}
	var expr func(e ast.Expr) ast.Expr
	var stmt func(s ast.Stmt) ast.Stmt
	var block func(b *ast.BlockStmt)
	exprs := func(l []ast.Expr) {
		for i := range l {
			l[i] = expr(l[i])
		}
	}
	expr = func(e ast.Expr) ast.Expr {
		switch x := e.(type) {
		case nil:
			return nil
		case *ast.Ident:
			if isShared(x) {
				return wrapR(x)
			}
			return x
		case *ast.UnaryExpr:
			if x.Op == token.ARROW {
				rep.Receives++
				count++
				return rtCall("Recv", expr(x.X))
			}
			if x.Op == token.AND && isShared(x.X) {
				return x // address handed to an atomic operation etc.: left alone
			}
			x.X = expr(x.X)
			return x
		case *ast.BinaryExpr:
			x.X, x.Y = expr(x.X), expr(x.Y)
			return x
		case *ast.ParenExpr:
			x.X = expr(x.X)
			return x
		case *ast.CallExpr:
			if se, ok := x.Fun.(*ast.SelectorExpr); ok {
				if id, ok := se.X.(*ast.Ident); ok && id.Name == "runtime" && id.Obj == nil && se.Sel.Name == "Gosched" && len(x.Args) == 0 {
					count++
					return rtCall("Gosched")
				}
			}
			x.Fun = expr(x.Fun)
			exprs(x.Args)
			return x
		case *ast.SelectorExpr:
			x.X = expr(x.X)
			return x
		case *ast.IndexExpr:
			x.X, x.Index = expr(x.X), expr(x.Index)
			return x
		case *ast.SliceExpr:
			x.X, x.Low, x.High, x.Max = expr(x.X), expr(x.Low), expr(x.High), expr(x.Max)
			return x
		case *ast.StarExpr:
			x.X = expr(x.X)
			return x
		case *ast.TypeAssertExpr:
			x.X = expr(x.X)
			return x
		case *ast.KeyValueExpr:
			x.Value = expr(x.Value)
			return x
		case *ast.CompositeLit:
			exprs(x.Elts)
			return x
		case *ast.FuncLit:
			block(x.Body)
			return x
		}
		return e
	}
	lhs := func(e ast.Expr) ast.Expr {
		if isShared(e) {
			return wrapW(e)
		}
		return expr(e)
	}
	block = func(b *ast.BlockStmt) {
		if b == nil {
			return
		}
		for i := range b.List {
			b.List[i] = stmt(b.List[i])
		}
	}
	stmt = func(s ast.Stmt) ast.Stmt {
		switch x := s.(type) {
		case nil:
			return nil
		case *ast.ExprStmt:
			x.X = expr(x.X)
		case *ast.AssignStmt:
			// v, ok := <-ch
			if len(x.Rhs) == 1 && len(x.Lhs) == 2 {
				if u, ok := x.Rhs[0].(*ast.UnaryExpr); ok && u.Op == token.ARROW {
					rep.Receives++
					count++
					x.Rhs[0] = rtCall("Recv2", expr(u.X))
					if x.Tok != token.DEFINE {
						for i := range x.Lhs {
							x.Lhs[i] = lhs(x.Lhs[i])
						}
					}
					return x
				}
			}
			exprs(x.Rhs)
			if x.Tok == token.DEFINE {
				// definitions are not accesses of an already shared variable... unless redeclared mixed
				for i, l := range x.Lhs {
					if id, ok := l.(*ast.Ident); ok && id.Obj != nil && id.Obj.Decl == x {
						continue
					}
					_ = i
					rep.Unsupported = append(rep.Unsupported, fmt.Sprintf("%s:%d: := reassigning an existing shared variable", fname, fset.Position(x.Pos()).Line))
				}
			} else if x.Tok == token.ASSIGN {
				for i := range x.Lhs {
					x.Lhs[i] = lhs(x.Lhs[i])
				}
			} else {
				// op-assign: read and write
				for i := range x.Lhs {
					if isShared(x.Lhs[i]) {
						rep.Wrapped++
						count++
						x.Lhs[i] = &ast.StarExpr{X: rtCall("W", &ast.UnaryExpr{Op: token.AND, X: x.Lhs[i]})}
					} else {
						x.Lhs[i] = expr(x.Lhs[i])
					}
				}
			}
		case *ast.IncDecStmt:
			x.X = lhs(x.X)
		case *ast.GoStmt:
			rep.GoStmts++
			count++
			call := x.Call
			var pre []ast.Stmt
			for i, a := range call.Args {
				tmp := ast.NewIdent(fmt.Sprintf("verifArg%d", i))
				pre = append(pre, &ast.AssignStmt{Lhs: []ast.Expr{tmp}, Tok: token.DEFINE, Rhs: []ast.Expr{expr(a)}})
				call.Args[i] = tmp
			}
			if lit, ok := call.Fun.(*ast.FuncLit); ok {
				block(lit.Body)
			} else {
				call.Fun = expr(call.Fun)
			}
			var spawn ast.Stmt
			if lit, ok := call.Fun.(*ast.FuncLit); ok && len(call.Args) == 0 && (lit.Type.Params == nil || len(lit.Type.Params.List) == 0) {
				spawn = &ast.ExprStmt{X: rtCall("Go", lit)}
			} else {
				spawn = &ast.ExprStmt{X: rtCall("Go", &ast.FuncLit{Type: &ast.FuncType{Params: &ast.FieldList{}}, Body: &ast.BlockStmt{List: []ast.Stmt{&ast.ExprStmt{X: call}}}})}
			}
			if len(pre) == 0 {
				return spawn
			}
			return &ast.BlockStmt{List: append(pre, spawn)}
		case *ast.DeferStmt:
			exprs(x.Call.Args)
			if lit, ok := x.Call.Fun.(*ast.FuncLit); ok {
				block(lit.Body)
			}
		case *ast.ReturnStmt:
			exprs(x.Results)
		case *ast.BlockStmt:
			block(x)
		case *ast.IfStmt:
			x.Init = stmt(x.Init)
			x.Cond = expr(x.Cond)
			block(x.Body)
			x.Else = stmt(x.Else)
		case *ast.ForStmt:
			x.Init = stmt(x.Init)
			x.Cond = expr(x.Cond)
			x.Post = stmt(x.Post)
			block(x.Body)
		case *ast.RangeStmt:
			if u, ok := x.X.(*ast.UnaryExpr); ok && u.Op == token.ARROW {
				_ = u
			}
			x.X = expr(x.X)
			block(x.Body)
		case *ast.SwitchStmt:
			x.Init = stmt(x.Init)
			x.Tag = expr(x.Tag)
			block(x.Body)
		case *ast.TypeSwitchStmt:
			block(x.Body)
		case *ast.CaseClause:
			exprs(x.List)
			for i := range x.Body {
				x.Body[i] = stmt(x.Body[i])
			}
		case *ast.SelectStmt:
			if pollingSelect(x) {
				// the comm expressions stay real receives; only the clause bodies are rewritten
				for _, c := range x.Body.List {
					cc := c.(*ast.CommClause)
					for i := range cc.Body {
						cc.Body[i] = stmt(cc.Body[i])
					}
				}
				count++
				rep.Receives++
				return &ast.BlockStmt{List: []ast.Stmt{&ast.ExprStmt{X: rtCall("SelectPoint")}, x}}
			}
		case *ast.LabeledStmt:
			x.Stmt = stmt(x.Stmt)
		case *ast.DeclStmt:
			if gd, ok := x.Decl.(*ast.GenDecl); ok {
				for _, sp := range gd.Specs {
					if vs, ok := sp.(*ast.ValueSpec); ok {
						exprs(vs.Values)
					}
				}
			}
		}
		return s
	}
	block(body)
	return count
}
