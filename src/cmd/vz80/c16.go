package main

import (
	"encoding/json"
	"fmt"

	z80 "github.com/koron-go/z80"
)

// C16: flag and register accessors touch exactly the named bits.
// Complete enumeration: 256 masks x 256 F x 256 A x {Get, Set, Reset}, all
// 65536 register values, the eight constants.
func init() { register("C16", checkC16) }

type c16Case struct {
	Op   string `json:"op"`
	Mask uint8  `json:"mask"`
	F    uint8  `json:"f"`
	A    uint8  `json:"a"`
	V    uint16 `json:"v,omitempty"`
}

func c16One(op int, mask, f, a uint8) []string {
	var g z80.GPR
	g.AF = z80.Register{Hi: a, Lo: f}
	g.BC = z80.Register{Hi: ^a, Lo: ^f}
	g.DE = z80.Register{Hi: a ^ 0x5A, Lo: f ^ 0xA5}
	g.HL = z80.Register{Hi: mask, Lo: ^mask}
	pre := g
	var d []string
	wantF := f
	switch op {
	case 0:
		got := g.GetFlag(z80.Flag(mask))
		if want := f&mask != 0; got != want {
			d = append(d, fmt.Sprintf("GetFlag(%02X) with F=%02X: want %v got %v", mask, f, want, got))
		}
	case 1:
		g.SetFlag(z80.Flag(mask))
		wantF = f | mask
	case 2:
		g.ResetFlag(z80.Flag(mask))
		wantF = f &^ mask
	}
	if g.AF.Lo != wantF {
		d = append(d, fmt.Sprintf("op %d mask %02X F=%02X: F afterwards want %02X got %02X", op, mask, f, wantF, g.AF.Lo))
	}
	if g.AF.Hi != a {
		d = append(d, fmt.Sprintf("op %d mask %02X: A changed %02X -> %02X", op, mask, a, g.AF.Hi))
	}
	if g.BC != pre.BC || g.DE != pre.DE || g.HL != pre.HL {
		d = append(d, fmt.Sprintf("op %d mask %02X: another register changed", op, mask))
	}
	return d
}

func checkC16(c *Ctx) {
	c.Level = "model_checking"
	c.Rule = "complete enumeration: {GetFlag,SetFlag,ResetFlag} x 256 masks x 256 F x 256 A; SetU16/U16/Hi/Lo on all 65536 values; the unkeyed literal Register{hi, lo}; GetFlag on GPR/States/CPU values held in an interface and as a method value (snapshot); 8 flag constants. Non-trivial = the call must change or report something (mask&F != 0 for Get/Reset, mask&^F != 0 for Set), counted."
	c.Bound = "complete space"
	names := []string{"GetFlag", "SetFlag", "ResetFlag"}
	var nontrivial [16]int64
	parallel(3*256, 1, 0, func(w int, lo, hi int64) {
		for i := lo; i < hi; i++ {
			op, mask := int(i/256), uint8(i%256)
			for f := 0; f < 256; f++ {
				for a := 0; a < 256; a++ {
					if d := c16One(op, mask, uint8(f), uint8(a)); d != nil {
						c.Report("c16/flags", i*65536+int64(f)*256+int64(a), "", c16Case{Op: names[op], Mask: mask, F: uint8(f), A: uint8(a)}, d)
					}
				}
				nt := false
				switch op {
				case 0, 2:
					nt = uint8(f)&mask != 0
				case 1:
					nt = mask&^uint8(f) != 0
				}
				if nt {
					nontrivial[w%16] += 256
				}
			}
		}
	}, nil)
	c.Evaluations += 3 * 256 * 256 * 256
	for _, n := range nontrivial {
		c.Nontrivial += n
	}
	// registers
	for v := 0; v < 65536; v++ {
		var r z80.Register
		r.SetU16(uint16(v))
		var d []string
		if r.U16() != uint16(v) {
			d = append(d, fmt.Sprintf("SetU16(%04X); U16() = %04X", v, r.U16()))
		}
		if r.Hi != uint8(v>>8) || r.Lo != uint8(v) {
			d = append(d, fmt.Sprintf("SetU16(%04X): Hi=%02X Lo=%02X", v, r.Hi, r.Lo))
		}
		r2 := z80.Register{Hi: uint8(v >> 8), Lo: uint8(v)}
		if r2.U16() != uint16(v) {
			d = append(d, fmt.Sprintf("Register{Hi:%02X,Lo:%02X}.U16() = %04X", r2.Hi, r2.Lo, r2.U16()))
		}
		if d != nil {
			c.Report("c16/register", int64(v), "", c16Case{Op: "SetU16/U16", V: uint16(v)}, d)
		}
		c.Evaluations++
		if v != 0 {
			c.Nontrivial++
		}
	}
	// the layout of Register is API too: an unkeyed literal z80.Register{hi, lo}, or a register dump loaded in
	// declaration order, puts the first value into the high byte
	{
		r := z80.Register{0x12, 0x34} //nolint:govet // unkeyed on purpose
		c.Evaluations++
		c.Nontrivial++
		if r.Hi != 0x12 || r.Lo != 0x34 || r.U16() != 0x1234 {
			c.Report("c16/register", 65536, "", c16Case{Op: "Register{0x12, 0x34}", V: 0x1234}, []string{fmt.Sprintf("the unkeyed literal z80.Register{0x12, 0x34} gives Hi=%02X Lo=%02X U16()=%04X: the declaration order of the two fields changed (Hi first, then Lo)", r.Hi, r.Lo, r.U16())})
		}
	}
	// the accessors are methods of the VALUE types too: a GPR, States or CPU value stored in an interface (a
	// template, a logger, a UI model) can be asked for a flag; and a method value taken from a value is a
	// snapshot of that value
	{
		type getter interface{ GetFlag(z80.Flag) bool }
		g := z80.GPR{AF: z80.Register{Hi: 0x12, Lo: 0x41}}
		vals := map[string]interface{}{"GPR": g, "States": z80.States{GPR: g}, "CPU": z80.CPU{States: z80.States{GPR: g}}}
		for name, v := range vals {
			c.Evaluations++
			c.Nontrivial++
			gt, ok := v.(getter)
			if !ok || !gt.GetFlag(z80.FlagZ) || gt.GetFlag(z80.FlagS) || !gt.GetFlag(z80.FlagS|z80.FlagC) {
				c.Report("c16/flags", 1<<30, "", c16Case{Op: "GetFlag on a " + name + " value held in an interface"}, []string{fmt.Sprintf("a z80.%s VALUE held in an interface: has method GetFlag(Flag) bool: %v (the accessor moved to the pointer type, or answers wrongly there)", name, ok)})
			}
		}
		before := g.GetFlag
		g.AF.Lo = 0x00
		c.Evaluations++
		if !before(z80.FlagZ) {
			c.Report("c16/flags", 1<<30+1, "", c16Case{Op: "method value g.GetFlag taken before F changed"}, []string{"the method value g.GetFlag, taken while F=41, reports Z clear after g.AF.Lo was set to 00: GetFlag no longer works on a copy of the value"})
		}
	}
	// constants
	consts := []struct {
		n    string
		got  z80.Flag
		want uint8
	}{{"FlagC", z80.FlagC, 0x01}, {"FlagN", z80.FlagN, 0x02}, {"FlagPV", z80.FlagPV, 0x04}, {"Flag3", z80.Flag3, 0x08},
		{"FlagH", z80.FlagH, 0x10}, {"Flag5", z80.Flag5, 0x20}, {"FlagZ", z80.FlagZ, 0x40}, {"FlagS", z80.FlagS, 0x80}}
	for i, k := range consts {
		c.Evaluations++
		c.Nontrivial++
		if uint8(k.got) != k.want {
			c.Report("c16/const", int64(i), "", c16Case{Op: k.n}, []string{fmt.Sprintf("%s = %02X, Z80 bit position is %02X", k.n, uint8(k.got), k.want)})
		}
	}
	c.States = 256*256 + 65536
	c.Transitions = c.Evaluations
	c.Traces = c.Evaluations
	c.Exhaustive = true
	c.Sample(c16Case{Op: "ResetFlag", Mask: 0x41, F: 0xC3, A: 0x12})
	c.Sample(c16Case{Op: "GetFlag", Mask: 0x28, F: 0x08, A: 0xFF})
	c.Sample(c16Case{Op: "SetU16/U16", V: 0xFF00})
	c.Assume("GPR/Register are plain values: no other state can be touched by the accessors (checked: BC, DE, HL, A unchanged)")
}

func init() {
	replayers["c16/flags"] = func(c *Ctx, raw []byte) []string {
		var cs c16Case
		if json.Unmarshal(raw, &cs) != nil {
			return []string{"bad replay file"}
		}
		for op, n := range []string{"GetFlag", "SetFlag", "ResetFlag"} {
			if n == cs.Op {
				return c16One(op, cs.Mask, cs.F, cs.A)
			}
		}
		return nil
	}
}
