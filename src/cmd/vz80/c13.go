package main

import (
	"context"
	"encoding/json"
	"fmt"
	"os"
	"path/filepath"
	"sort"
	"strings"
	"time"

	z80 "github.com/koron-go/z80"
	"github.com/koron-go/z80/internal/verif/obs"
	"github.com/koron-go/z80/internal/verif/sched"
	"github.com/koron-go/z80/internal/verif/shim/rt"
)

// C13: Run honours cancellation promptly, at an instruction boundary,
// leak/race-free. SCHED engine on the overlay-rewritten Run (DESIGN §4.3):
// the caller, the goroutine(s) Run spawns and a canceller are threads of the
// controlled scheduler; all interleavings with a bounded number of
// preemptions are enumerated, with fair yields at the polling load.
func init() {
	register("C13", checkC13)
	replayers["c13/cancel"] = replayC13
}

// c13Horizon bounds one execution in scheduling points. Correct code needs < 50; the bound is generous
// (thousands of Steps after cancellation) so that designs which look at the flag only every n Steps pass.
const c13Horizon = 20000

type c13Prog struct {
	name        string
	code        []uint8
	terminating bool
	bpReached   uint16
}

func c13Progs() []c13Prog {
	return []c13Prog{
		{"JR -2", []uint8{0x18, 0xFE}, false, 0x0100},
		{"LDIR BC=0 loop", []uint8{0x01, 0x00, 0x00, 0xED, 0xB0, 0x18, 0xF9}, false, 0x0103},
		{"IN A,(n); JR", []uint8{0xDB, 0x10, 0x18, 0xFC}, false, 0x0102},
		{"NOP;NOP;HALT", []uint8{0x00, 0x00, 0x76}, true, 0x0101},
		{"LD B,4; L: DJNZ L; HALT", []uint8{0x06, 0x04, 0x10, 0xFE, 0x76}, true, 0x0104},
		// loops made of prefixed instructions only (two opcode fetches per instruction)
		{"LD IX,0104; JP (IX) loop", []uint8{0xDD, 0x21, 0x04, 0x01, 0xDD, 0xE9}, false, 0x0104},
		{"LD IX,0104; IN A,(C); JP (IX) loop", []uint8{0xDD, 0x21, 0x04, 0x01, 0xED, 0x78, 0xDD, 0xE9}, false, 0x0106},
		{"LD R,A in a loop", []uint8{0xED, 0x4F, 0x18, 0xFC}, false, 0x0102},
		// the whole memory reads DD: an endless run of prefixes
		{"memory full of DD", nil, false, 0x0104},
	}
}

type c13Scenario struct {
	Prog      int    `json:"program"`
	Name      string `json:"name,omitempty"`
	BP        int    `json:"breakpoints"` // 0 nil, 1 non-nil never reached, 2 reached
	Canceller int    `json:"canceller"`   // 0 absent, 1 cancels before the call, 2 concurrent
	Deadline  bool   `json:"deadline_context"`
	Runs      int    `json:"runs,omitempty"`               // number of consecutive Run calls by the caller (0 = 1)
	R0        int    `json:"r0,omitempty"`                 // initial refresh register (0 = base vector's, else value+1)
	SepCtx    bool   `json:"separate_contexts,omitempty"`  // Run #1 gets the cancellable context, later Runs a fresh one nobody cancels
	PanicAt   int    `json:"panic_at_read,omitempty"`      // the memory callback panics at this caller read (Run is left by unwinding)
	Cause     bool   `json:"cancel_cause,omitempty"`       // the parent is a WithCancelCause context cancelled with a custom cause: Run still returns ctx.Err()
	BgCtx     bool   `json:"background_context,omitempty"` // Run(context.Background()): Done() is nil, nothing can ever cancel; Run must still leave nothing behind
	Pending   bool   `json:"refused_request,omitempty"`    // a maskable request stays pending for the whole Run (IFF1 clear, the program never executes EI)
	Sched     []int  `json:"schedule,omitempty"`
}

// deadlineCtx is a harness-owned parent context standing for an expired
// deadline: Done/Err are controlled by expire(); implementing AfterFunc makes
// the standard library register children with us instead of spawning a goroutine.
type deadlineCtx struct {
	done  chan struct{}
	err   error
	funcs []func()
}

func (d *deadlineCtx) Deadline() (t time.Time, ok bool)  { return time.Time{}, false }
func (d *deadlineCtx) Done() <-chan struct{}             { return d.done }
func (d *deadlineCtx) Err() error                        { return d.err }
func (d *deadlineCtx) Value(key interface{}) interface{} { return nil }
func (d *deadlineCtx) AfterFunc(f func()) func() bool {
	i := len(d.funcs)
	d.funcs = append(d.funcs, f)
	return func() bool {
		if d.funcs[i] == nil {
			return false
		}
		d.funcs[i] = nil
		return d.err == nil
	}
}
func (d *deadlineCtx) expire() {
	if d.err != nil {
		return
	}
	d.err = context.DeadlineExceeded
	close(d.done)
	for i, f := range d.funcs {
		if f != nil {
			d.funcs[i] = nil
			f()
		}
	}
}

type c13Outcome struct {
	returned  bool
	err       error
	cancelled bool // the canceller had called cancel() before Run returned
	cancelAt  int  // memory reads made by the caller when cancel() completed (-1: never)
	reads     int
	final     z80.States
	halt      bool
	pcMem     uint8
	firstErrs []error
	// lastCtxLive: the last Run had a context that was never cancelled
	lastCtxLive bool
	// unwound: Run was left by a panic raised in a device callback (recovered by the caller)
	unwound bool
}

type c13DevicePanic struct{}

var errC13Cause = fmt.Errorf("the embedder's own cause for cancelling")

func (o *c13Outcome) sig() string {
	return fmt.Sprintf("returned=%v err=%v PC=%04X HALT=%v reads=%d", o.returned, o.err, o.final.PC, o.halt, o.reads)
}

type c13World struct {
	cpu *z80.CPU
	mem *obs.Mem
	out *c13Outcome
}

func c13Body(bg *[65536]uint8, sc *c13Scenario, world **c13World) func(s *sched.Scheduler) {
	progs := c13Progs()
	p := &progs[sc.Prog]
	return func(s *sched.Scheduler) {
		rt.Install(s)
		w := &c13World{mem: obs.NewMem(bg), out: &c13Outcome{cancelAt: -1}}
		*world = w
		if p.code == nil {
			w.mem = obs.NewMem(ddBackground())
			world2 := w
			_ = world2
		}
		w.mem.Poke(0x0100, p.code...)
		io := &obs.IO{X: 0x42, Fixed: true}
		cpu := &z80.CPU{Memory: w.mem, IO: io}
		w.cpu = cpu
		base := baseVector(0)
		st := base.S
		st.PC, st.SP = 0x0100, 0xF000
		if sc.R0 > 0 {
			st.R = uint8(sc.R0 - 1)
			st.A = st.R
		}
		if sc.Pending {
			st.IFF1, st.IFF2, st.IM = false, false, 1
		}
		toCPU(&st, cpu)
		if sc.Pending {
			cpu.Interrupt = z80.IM1Interrupt()
		}
		switch sc.BP {
		case 1:
			cpu.BreakPoints = map[uint16]struct{}{0x4000: {}}
		case 2:
			cpu.BreakPoints = map[uint16]struct{}{p.bpReached: {}}
		}
		var ctx context.Context
		var cancel func()
		if sc.Deadline {
			d := &deadlineCtx{done: make(chan struct{})}
			ctx, cancel = d, d.expire
		} else if sc.BgCtx {
			ctx, cancel = context.Background(), func() {}
		} else if sc.Cause {
			c, cf := context.WithCancelCause(context.Background())
			ctx, cancel = c, func() { cf(errC13Cause) }
		} else {
			c, cf := context.WithCancel(context.Background())
			ctx, cancel = c, cf
		}
		out := w.out
		callerReads := 0
		caller := -1
		w.mem.Hook = func(write bool, addr uint16) {
			if s.Current() == caller && !write {
				callerReads++
				if sc.PanicAt > 0 && callerReads == sc.PanicAt {
					panic(c13DevicePanic{})
				}
			}
			if s.RunLength() >= 40 {
				// fairness independent of how Run polls: a thread that passed 40 points in a
				// row gives way (no preemption cost), so a spin without instrumented
				// synchronisation cannot starve the canceller or the watcher
				rt.NPoints++
				s.Yield("fairness (40 points in a row)")
				return
			}
			rt.Point("memory access")
		}
		io.Hook = func(bool, uint8) { rt.Point("port access") }
		if sc.Canceller == 1 {
			cancel()
			out.cancelled = true
			out.cancelAt = 0
		}
		caller = s.Go("caller", func() {
			if sc.PanicAt > 0 {
				// the device panics inside a callback; the embedder recovers. Run was left by unwinding.
				defer func() {
					if r := recover(); r != nil {
						if _, ok := r.(c13DevicePanic); !ok {
							panic(r)
						}
						out.returned = true
						out.unwound = true
						out.reads = callerReads
						out.final = cpu.States
					}
				}()
			}
			err := cpu.Run(ctx)
			for i := 1; i < sc.Runs; i++ {
				// repeated calls on the same CPU: a flag, goroutine or context kept from the
				// previous call must not leak into this one
				out.firstErrs = append(out.firstErrs, err)
				if sc.SepCtx {
					// a context of its own that nobody ever cancels: whatever happens to the context
					// of the earlier call must not stop this one
					fresh, freshCancel := context.WithCancel(context.Background())
					err = cpu.Run(fresh)
					out.lastCtxLive = true
					freshCancel()
				} else {
					err = cpu.Run(ctx)
				}
			}
			out.err = err
			out.returned = true
			out.reads = callerReads
			out.final = cpu.States
			out.halt = cpu.HALT
			out.pcMem = w.mem.Peek(cpu.PC)
		})
		if sc.Canceller == 2 {
			s.Go("canceller", func() {
				rt.ReleaseGlobal()
				cancel()
				if !out.returned {
					out.cancelled = true
				}
				out.cancelAt = callerReads
			})
		}
	}
}

// c13Judge evaluates one finished execution. Returns the diff (nil = fine).
func c13Judge(bg *[65536]uint8, sc *c13Scenario, x *sched.Scheduler, w *c13World, spawned int, races []string, virtual map[int]bool) []string {
	progs := c13Progs()
	p := &progs[sc.Prog]
	out := w.out
	var d []string
	if pv, tr := x.Panic(); pv != nil {
		return []string{fmt.Sprintf("panic: %v", pv), tr}
	}
	if x.Diverged != "" {
		return []string{"framework: schedule replay diverged: " + x.Diverged}
	}
	nonTermNoCancel := !p.terminating && sc.Canceller == 0 && sc.BP != 2
	if !out.returned {
		if nonTermNoCancel {
			return nil // nothing obliges Run to return
		}
		if x.HorizonHit {
			return []string{fmt.Sprintf("Run did not return within the horizon of %d scheduling points (cancel() completed: %v, after %d caller reads)", x.Horizon, out.cancelAt >= 0, out.cancelAt)}
		}
		if x.Deadlock {
			return []string{fmt.Sprintf("deadlock: no thread can run and Run has not returned; unfinished threads %v", x.Unfinished())}
		}
		return []string{"Run did not return"}
	}
	// leak: Run returned but a thread it spawned can never finish (threads that only stand for a
	// registered callback which never fired are not goroutines)
	leaked := 0
	for _, id := range x.UnfinishedIDs() {
		if !virtual[id] {
			leaked++
		}
	}
	if leaked > 0 {
		d = append(d, fmt.Sprintf("Run returned (%v) and left goroutine(s) behind that can never finish: %v", out.err, x.Unfinished()))
	}
	for i, e := range out.firstErrs {
		if e != nil && e != z80.ErrBreakPoint && e != context.Canceled && e != context.DeadlineExceeded {
			d = append(d, fmt.Sprintf("Run call #%d returned an unexpected error: %v", i+1, e))
		}
		if (e == context.Canceled || e == context.DeadlineExceeded) && sc.Canceller == 0 {
			d = append(d, fmt.Sprintf("Run call #%d returned %v although nothing ever cancels the context", i+1, e))
		}
	}
	if out.unwound {
		// only the goroutine accounting applies
		if leaked > 0 {
			return d
		}
		return nil
	}
	// error value
	switch {
	case out.err == nil:
		if !out.halt || out.pcMem != 0x76 {
			d = append(d, fmt.Sprintf("Run returned nil but no HALT was executed (HALT=%v, PC=%04X addresses %02X); cancelled before return: %v", out.halt, out.final.PC, out.pcMem, out.cancelled))
		}
	case out.err == z80.ErrBreakPoint:
		if _, hit := w.cpu.BreakPoints[out.final.PC]; !hit {
			d = append(d, fmt.Sprintf("Run returned ErrBreakPoint at PC=%04X which is not a breakpoint", out.final.PC))
		}
	case out.err == context.Canceled || out.err == context.DeadlineExceeded:
		// a Step that lands on a breakpoint or executes a HALT is reported as such even if the context became
		// done while it was executing (C08: Run returns ErrBreakPoint / nil after that Step); a cancellation is
		// only ever reported in place of a Step, never in place of the stop that a completed Step earned.
		// (Zero reads: Run returned before its first Step, where the start PC may well be a breakpoint.)
		if out.reads > 0 && sc.Runs <= 1 {
			if _, hit := w.cpu.BreakPoints[out.final.PC]; hit {
				d = append(d, fmt.Sprintf("Run returned %v although its last Step ended on the breakpoint %04X: that stop is lost (the caller's next Run starts with a Step and runs through it)", out.err, out.final.PC))
			} else if w.cpu.HALT {
				d = append(d, fmt.Sprintf("Run returned %v although its last Step executed a HALT (PC=%04X): Run returns nil after that Step", out.err, out.final.PC))
			}
		}
		if out.lastCtxLive {
			d = append(d, fmt.Sprintf("Run returned %v although its own context was never cancelled (only the context of an earlier Run on this CPU was)", out.err))
		} else if !out.cancelled {
			d = append(d, fmt.Sprintf("Run returned %v although the context had not been cancelled", out.err))
		}
		want := context.Canceled
		if sc.Deadline {
			want = context.DeadlineExceeded
		}
		if out.err != want {
			d = append(d, fmt.Sprintf("Run returned %v, the context's error is %v", out.err, want))
		}
	default:
		d = append(d, fmt.Sprintf("Run returned an unexpected error: %v", out.err))
	}
	// whole number of Steps: a Step-driven twin reaches the same state with the same number of reads
	tm := obs.NewMem(bg)
	if p.code == nil {
		tm = obs.NewMem(ddBackground())
	}
	tm.Poke(0x0100, p.code...)
	twin := &z80.CPU{Memory: tm, IO: &obs.IO{X: 0x42, Fixed: true}}
	base := baseVector(0)
	st := base.S
	st.PC, st.SP = 0x0100, 0xF000
	if sc.R0 > 0 {
		st.R = uint8(sc.R0 - 1)
		st.A = st.R
	}
	if sc.Pending {
		st.IFF1, st.IFF2, st.IM = false, false, 1
	}
	toCPU(&st, twin)
	if sc.Pending {
		twin.Interrupt = z80.IM1Interrupt()
	}
	twin.HALT = false
	steps := 0
	for len(tm.Reads) < out.reads && steps < 100000 {
		twin.Step()
		steps++
	}
	if len(tm.Reads) != out.reads || twin.States != out.final {
		x1, x2 := fromCPU(&z80.CPU{States: out.final}), fromCPU(twin)
		d = append(d, fmt.Sprintf("Run did not stop at an instruction boundary reachable by whole Steps: after %d reads Run left %v ; %d Steps of the twin (%d reads) give %v", out.reads, stateMap(&x1), steps, len(tm.Reads), stateMap(&x2)))
	}
	// no earlier stop without cause; promptness
	if out.err == nil || out.err == z80.ErrBreakPoint {
		// the twin must also stop here by the stop rule
		if _, hit := w.cpu.BreakPoints[twin.PC]; !(twin.HALT || hit) {
			d = append(d, "Run stopped although neither a HALT was executed nor a breakpoint reached")
		}
	}
	if out.cancelAt >= 0 && !p.terminating && sc.BP != 2 {
		// Steps the caller still executed after cancel() had completed *and* every other thread had finished are
		// bounded by fair scheduling; the number of reads after cancellation is reported, the hard bound is the horizon.
		_ = out
	}
	for _, r := range races {
		d = append(d, r)
	}
	return d
}

func checkC13(c *Ctx) {
	if why := os.Getenv("VERIF_C13_SKIP"); why != "" {
		fmt.Println("C13: exploration skipped:", why)
		c.Capped("exploration skipped: " + why)
		c.Rule = "exploration skipped (" + why + "); auxiliary free-running pass only"
		return
	}
	if os.Getenv("VERIF_C13_REWRITTEN") != "1" {
		fmt.Println("C13: this binary was not built against the rewritten package; bin/check C13 builds it. Nothing explored.")
		c.Capped("rewrite not active")
		c.Rule = "not run"
		return
	}
	var rep rewriteReport
	if b, err := os.ReadFile(filepath.Join(os.Getenv("VERIF_C13_DIR"), "rewrite.json")); err == nil {
		json.Unmarshal(b, &rep)
	}
	c.Set("rewrite", rep)
	if len(rep.Unsupported) > 0 {
		// never guess: without a faithful instrumentation the explorer could starve or mis-order
		// threads and raise a false alarm. Only the auxiliary free-running pass runs (bin/check).
		fmt.Println("C13: the rewriter met constructs it does not model; exploration skipped:", strings.Join(rep.Unsupported, "; "))
		c.Capped("the rewriter met constructs it does not model: " + strings.Join(rep.Unsupported, "; "))
		c.Rule = "exploration skipped (unsupported constructs in the current source); auxiliary free-running pass only"
		return
	}
	bound := 2
	if !c.Quick() {
		bound = 3
	}
	progs := c13Progs()
	bg := obsBackground(c)
	var scenarios []c13Scenario
	for pi := range progs {
		for bp := 0; bp < 3; bp++ {
			for can := 0; can < 3; can++ {
				for _, dl := range []bool{false, true} {
					if dl && can == 0 {
						continue
					}
					if !progs[pi].terminating && can == 0 && bp != 2 {
						continue // never returns and nothing obliges it to
					}
					scenarios = append(scenarios, c13Scenario{Prog: pi, Name: progs[pi].name, BP: bp, Canceller: can, Deadline: dl})
					if !progs[pi].terminating && bp == 0 && !dl && can == 2 {
						// the same with other starting values of the refresh register (even, odd, about to wrap)
						for _, r0 := range []int{0x00, 0x01, 0x7E, 0xFF} {
							scenarios = append(scenarios, c13Scenario{Prog: pi, Name: progs[pi].name, BP: bp, Canceller: can, R0: r0 + 1})
						}
					}
					if progs[pi].terminating && !dl && can == 0 && bp != 1 {
						// a context that can never be cancelled (Done() == nil): no goroutine may wait on it for ever
						scenarios = append(scenarios, c13Scenario{Prog: pi, Name: progs[pi].name + " (context.Background)", BP: bp, Canceller: can, BgCtx: true})
						scenarios = append(scenarios, c13Scenario{Prog: pi, Name: progs[pi].name + " (context.Background, Run x2)", BP: bp, Canceller: can, BgCtx: true, Runs: 2})
					}
					if !dl && can != 0 && bp == 0 {
						// cancelled with a custom cause: the error Run returns is still the context's Err()
						scenarios = append(scenarios, c13Scenario{Prog: pi, Name: progs[pi].name + " (WithCancelCause)", BP: bp, Canceller: can, Cause: true})
					}
					if !dl && can != 0 && bp == 0 && progs[pi].code != nil {
						// a maskable request that is never accepted stays pending for the whole Run
						scenarios = append(scenarios, c13Scenario{Prog: pi, Name: progs[pi].name + " (refused request pending)", BP: bp, Canceller: can, Pending: true})
					}
					if bp == 0 && !dl && can != 1 && progs[pi].code != nil {
						// a device callback panics while Run is executing (recovered by the caller): no goroutine may stay behind
						scenarios = append(scenarios, c13Scenario{Prog: pi, Name: progs[pi].name + " (device panics at the 3rd read)", BP: bp, Canceller: can, PanicAt: 3})
					}
					if progs[pi].terminating && !dl && can == 2 && bp != 1 {
						// Run #1 under the cancellable context (ends by HALT or at the breakpoint), Run #2 under a live context of its own
						scenarios = append(scenarios, c13Scenario{Prog: pi, Name: progs[pi].name + " (Run x2, separate contexts)", BP: bp, Canceller: can, Runs: 2, SepCtx: true})
					}
					if progs[pi].terminating && bp == 0 && !dl {
						scenarios = append(scenarios, c13Scenario{Prog: pi, Name: progs[pi].name + " (Run x2)", BP: bp, Canceller: can, Runs: 2})
						if !c.Quick() {
							scenarios = append(scenarios, c13Scenario{Prog: pi, Name: progs[pi].name + " (Run x3)", BP: bp, Canceller: can, Runs: 3})
						}
					}
				}
			}
		}
	}
	outcomes := map[string]int{}
	nSamples := 0
	var execs, points, maxPoints, spawnedTotal int64
	boundHit := false
	for si := range scenarios {
		if c.NViolations() >= 3 {
			// three violating scenarios are reported; exploring the rest of a broken tree only costs time
			// (executions that run into the horizon are 20 000 points long)
			break
		}
		sc := &scenarios[si]
		var world *c13World
		first := true
		b := bound
		if progs[sc.Prog].terminating && !c.Quick() && sc.Runs <= 1 {
			b = -1 // unbounded for terminating programs (single Run; repeated Runs stay at the preemption bound)
		}
		if os.Getenv("VERIF_C13_TRACE") != "" {
			fmt.Fprintf(os.Stderr, "scenario %d %q bp%d can%d dl%v starts t=%.1fs\n", si, sc.Name, sc.BP, sc.Canceller, sc.Deadline, time.Since(startTime).Seconds())
		}
		st := sched.Explore(b, c13Horizon, 400000, c13Body(bg, sc, &world), func(x *sched.Scheduler) bool {
			spawned := rt.Spawned
			races := append([]string{}, rt.HB.Races...)
			virtual := rt.Virtual
			rt.Uninstall()
			w := world
			spawnedTotal += int64(spawned)
			d := c13Judge(bg, sc, x, w, spawned, races, virtual)
			outcomes[fmt.Sprintf("%s|bp%d|can%d|%s", sc.Name, sc.BP, sc.Canceller, w.out.sig())]++
			if nSamples < 4 && (first || (len(x.Steps) > 8 && x.Steps[3].Chosen+x.Steps[5].Chosen+x.Steps[7].Chosen > 0 && si%7 == 3)) {
				// actual explored executions, written out
				nSamples++
				smp := *sc
				smp.Sched = x.Choices()
				c.Sample(map[string]interface{}{"scenario": smp, "outcome": w.out.sig(), "threads": x.NThreads()})
			}
			if first || d != nil {
				// replay determinism: the same schedule must give identical observations
				first = false
				var w2 *c13World
				x2 := sched.Execute(x.Choices(), c13Horizon, c13Body(bg, sc, &w2))
				rt.Uninstall()
				if w2.out.sig() != w.out.sig() || len(x2.Steps) != len(x.Steps) {
					c.Capped(fmt.Sprintf("nondeterminism not owned: schedule %v gave %q then %q", x.Choices(), w.out.sig(), w2.out.sig()))
					return false
				}
			}
			if d != nil {
				cs := *sc
				cs.Sched = x.Choices()
				var trace []string
				for _, sp := range x.Steps {
					if sp.Chosen != 0 || sp.Kind == sched.KExit {
						trace = append(trace, fmt.Sprintf("@%d thread %d %s -> thread %d", len(trace), sp.Running, sp.Label, sp.Enabled[sp.Chosen]))
					}
				}
				c.Report(fmt.Sprintf("c13/cancel:%s/bp%d/can%d/dl%v", sc.Name, sc.BP, sc.Canceller, sc.Deadline), int64(len(x.Steps)), "", cs,
					append(append([]string{fmt.Sprintf("program %q, breakpoints mode %d, canceller mode %d, deadline context %v, schedule (first 80 choices of %d) %v", sc.Name, sc.BP, sc.Canceller, sc.Deadline, len(x.Steps), headInts(x.Choices(), 80))}, d...), "context switches: "+strings.Join(trace, "; ")))
				return false
			}
			return true
		})
		if os.Getenv("VERIF_C13_TRACE") != "" {
			fmt.Fprintf(os.Stderr, "scenario %d %q bp%d can%d dl%v: %d executions, %d points, t=%.1fs\n", si, sc.Name, sc.BP, sc.Canceller, sc.Deadline, st.Executions, st.Points, time.Since(startTime).Seconds())
		}
		execs += int64(st.Executions)
		points += int64(st.Points)
		if int64(st.MaxPoints) > maxPoints {
			maxPoints = int64(st.MaxPoints)
		}
		if st.BoundHit {
			boundHit = true
		}
		if st.CapHit {
			c.Capped("execution cap reached for scenario " + sc.Name)
		}
		if c.TimeUp() {
			c.Capped("time cap reached")
			break
		}
	}
	var outs []string
	for k, n := range outcomes {
		outs = append(outs, fmt.Sprintf("%s x%d", k, n))
	}
	sort.Strings(outs)
	c.Evaluations = execs
	c.Nontrivial = execs
	c.States = points
	c.Transitions = points
	c.Traces = execs
	c.Exhaustive = true
	c.Set("schedules", execs)
	c.Set("scheduling_points", points)
	c.Set("max_points_per_schedule", maxPoints)
	c.Set("distinct_outcomes", len(outcomes))
	if len(outs) > 40 {
		outs = outs[:40]
	}
	c.Set("outcome_histogram_head", outs)
	c.Set("preemption_bound", bound)
	c.Set("bound_pruned_alternatives", boundHit)
	c.Set("threads_spawned_by_run_total", spawnedTotal)
	c.Rule = fmt.Sprintf("the real Run, rewritten at check time by an AST pass so that its go statement, channel receive, atomic operations, cancel() and captured-variable accesses go through a cooperative scheduler (%d files rewritten, %d go statements, %d receives, %d shared accesses instrumented); %d scenarios = programs {JR -2; LDIR BC=0 loop; IN A,(n) loop; NOP;NOP;HALT; DJNZ loop;HALT; JP (IX) loop; IN A,(C);JP (IX) loop; LD R,A loop} (non-terminating ones also from refresh-register values 00,01,7E,FF) x BreakPoints {nil, non-nil never reached, reached} x canceller {absent, before the call, concurrent} x parent context {std WithCancel -> Canceled, WithCancelCause with a custom cause -> still Canceled, context.Background() (Done() == nil) for the terminating programs, harness context with AfterFunc -> DeadlineExceeded}; also with a refused maskable request pending throughout, a device panic at the 3rd read, repeated Runs with shared or separate contexts; threads: caller, the goroutine(s) Run spawns, canceller; scheduling points at every atomic operation, go, receive, cancel() and inside every memory/port callback; ALL schedules with <=%d preemptions (thorough: unbounded for the terminating programs), fair yields at the polling load, horizon 20000 points. Per schedule: error in the allowed set (context error iff cancelled before return and equal to the context's error; nil => HALT executed; ErrBreakPoint => PC in BreakPoints), Run returns whenever cancelled or the program stops, final state = Step-driven twin after a whole number of Steps with the same number of reads, every spawned thread finished (leak), no deadlock, no happens-before race on the captured variables (vector clocks: fork, release/acquire on atomics, cancel->receive). First and every violating schedule are executed twice and must reproduce. Non-trivial: every schedule (counted); distinct outcomes reported.", len(rep.Files), rep.GoStmts, rep.Receives, rep.Wrapped, len(scenarios), bound)
	c.Bound = fmt.Sprintf("preemption bound %d, horizon 20000", bound)
	c.Assume("sequentially consistent interleavings at the instrumented operations; weak-memory effects are outside the model")
	c.Assume("'bounded delay' is decided in scheduling points (horizon) under fair scheduling, not in seconds")
	c.Assume("a deadline is modelled by a harness-owned parent context whose expiry is an event of the canceller thread (no runtime timer)")
}

func replayC13(c *Ctx, raw []byte) []string {
	if os.Getenv("VERIF_C13_REWRITTEN") != "1" {
		return []string{"replay C13 files with the rewritten binary: bin/check C13 keeps it as build/bin/vz80-c13 (VERIF_C13_REWRITTEN=1 build/bin/vz80-c13 replay <file>)"}
	}
	var sc c13Scenario
	if err := json.Unmarshal(raw, &sc); err != nil {
		return []string{"bad replay file"}
	}
	bg := obsBackground(c)
	var w *c13World
	x := sched.Execute(sc.Sched, c13Horizon, c13Body(bg, &sc, &w))
	races := append([]string{}, rt.HB.Races...)
	spawned := rt.Spawned
	virtual := rt.Virtual
	rt.Uninstall()
	return c13Judge(bg, &sc, x, w, spawned, races, virtual)
}

func headInts(a []int, n int) []int {
	if len(a) > n {
		return a[:n]
	}
	return a
}

var ddBg *[65536]uint8

func ddBackground() *[65536]uint8 {
	if ddBg == nil {
		b := new([65536]uint8)
		for i := range b {
			b[i] = 0xDD
		}
		ddBg = b
	}
	return ddBg
}
