// Package sched is a controlled cooperative scheduler plus a stateless,
// preemption-bounded depth-first explorer of thread interleavings (CHESS
// style). Threads are real goroutines that pass one run token; a thread runs
// until it reaches a point (Point, Yield, Block), finishes, or the execution
// is aborted. The package imports nothing from the code under check.
package sched

import (
	"fmt"
	"runtime"
	"sync"
)

// abortSentinel is panicked inside parked threads of a finished execution.
type abortSentinel struct{}

// Kind of a scheduling point.
type Kind uint8

// Point kinds.
const (
	KPoint Kind = iota // plain point: switching away costs a preemption
	KYield             // fair yield: the thread is not eligible while others are enabled
	KBlock             // blocking point: enabled iff the predicate holds
	KExit              // the running thread finished
)

// Step is one recorded scheduling decision.
type Step struct {
	Running        int // thread that reached the point
	Kind           Kind
	Enabled        []int // canonical order
	Chosen         int   // index into Enabled
	RunningEnabled bool  // the running thread could have continued (switching = preemption)
	Label          string
}

type thread struct {
	id      int
	name    string
	wake    chan struct{}
	done    bool
	started bool
	pred    func() bool // non-nil while blocked
	yielded bool
	fn      func()
}

// Scheduler runs one execution.
type Scheduler struct {
	mu       sync.Mutex
	threads  []*thread
	cur      int
	prefix   []int
	Steps    []Step
	Horizon  int
	aborting bool
	finished chan struct{}
	// results
	Deadlock   bool
	HorizonHit bool
	Diverged   string // non-empty: replay of the prefix diverged (nondeterminism not owned)
	panicVal   interface{}
	panicThr   int
	labels     []string
	live       int
}

// Go registers a new thread running f. It may be called before Run (from the
// body) or from a running thread. The new thread does not run until scheduled.
func (s *Scheduler) Go(name string, f func()) int {
	t := &thread{id: len(s.threads), name: name, wake: make(chan struct{}, 1), fn: f}
	s.threads = append(s.threads, t)
	exitMu.Lock()
	s.live++
	exitMu.Unlock()
	go s.threadMain(t)
	return t.id
}

func (s *Scheduler) threadMain(t *thread) {
	<-t.wake
	defer func() {
		if r := recover(); r != nil {
			if _, ok := r.(abortSentinel); ok {
				s.exited()
				return
			}
			if s.panicVal == nil {
				s.panicVal = r
				s.panicThr = t.id
				buf := make([]byte, 4096)
				n := runtime.Stack(buf, false)
				s.labels = append(s.labels, fmt.Sprintf("panic in thread %d (%s): %v\n%s", t.id, t.name, r, buf[:n]))
			}
			t.done = true
			s.abortAll()
			s.exited()
			return
		}
		s.exited()
	}()
	if s.aborting {
		panic(abortSentinel{})
	}
	t.started = true
	t.fn()
	t.done = true
	s.switchFrom(t, KExit, "")
}

var exitMu sync.Mutex

func (s *Scheduler) exited() {
	exitMu.Lock()
	s.live--
	l := s.live
	exitMu.Unlock()
	if l == 0 {
		close(s.finished)
	}
}

// abortAll wakes every parked thread with the abort flag set.
func (s *Scheduler) abortAll() {
	s.aborting = true
	for _, t := range s.threads {
		select {
		case t.wake <- struct{}{}:
		default:
		}
	}
}

func (s *Scheduler) enabled(t *thread) bool {
	if t.done {
		return false
	}
	if t.pred != nil {
		return t.pred()
	}
	return true
}

// switchFrom is called by the running thread t at a point.
func (s *Scheduler) switchFrom(t *thread, k Kind, label string) {
	if s.aborting {
		if k == KExit {
			return
		}
		panic(abortSentinel{})
	}
	// canonical enabled list: running first (if eligible), then ascending ids
	var en []int
	selfEnabled := k != KExit && s.enabled(t)
	othersEnabled := false
	for _, o := range s.threads {
		if o != t && s.enabled(o) {
			othersEnabled = true
		}
	}
	eligibleSelf := selfEnabled
	if k == KYield && othersEnabled {
		eligibleSelf = false // fair scheduling: a yielding thread gives way
	}
	if eligibleSelf {
		en = append(en, t.id)
	}
	for _, o := range s.threads {
		if o != t && s.enabled(o) {
			en = append(en, o.id)
		}
	}
	if len(en) == 0 {
		// nobody can run
		allDone := true
		for _, o := range s.threads {
			if !o.done {
				allDone = false
			}
		}
		if !allDone {
			s.Deadlock = true
			s.abortAll()
			if k != KExit {
				panic(abortSentinel{})
			}
		}
		return
	}
	if len(s.Steps) >= s.Horizon {
		s.HorizonHit = true
		s.abortAll()
		if k != KExit {
			panic(abortSentinel{})
		}
		return
	}
	choice := 0
	pos := len(s.Steps)
	if pos < len(s.prefix) {
		choice = s.prefix[pos]
		if choice >= len(en) {
			s.Diverged = fmt.Sprintf("replaying choice %d at point %d but only %d threads are enabled", choice, pos, len(en))
			s.abortAll()
			if k != KExit {
				panic(abortSentinel{})
			}
			return
		}
	}
	s.Steps = append(s.Steps, Step{Running: t.id, Kind: k, Enabled: en, Chosen: choice, RunningEnabled: eligibleSelf && (k == KPoint || k == KBlock), Label: label})
	next := s.threads[en[choice]]
	if next == t {
		return
	}
	s.cur = next.id
	next.wake <- struct{}{}
	if k == KExit {
		return
	}
	<-t.wake
	if s.aborting {
		panic(abortSentinel{})
	}
}

// Point is a plain scheduling point of the running thread.
func (s *Scheduler) Point(label string) {
	s.switchFrom(s.threads[s.cur], KPoint, label)
}

// Yield is a fair yield: other enabled threads run first, at no preemption cost.
func (s *Scheduler) Yield(label string) {
	s.switchFrom(s.threads[s.cur], KYield, label)
}

// Block parks the running thread until pred() holds (evaluated while all
// other threads are parked, hence deterministic).
func (s *Scheduler) Block(label string, pred func() bool) {
	t := s.threads[s.cur]
	t.pred = pred
	s.switchFrom(t, KBlock, label)
	t.pred = nil
}

// Current returns the id of the running thread.
func (s *Scheduler) Current() int { return s.cur }

// NThreads returns the number of threads created so far.
func (s *Scheduler) NThreads() int { return len(s.threads) }

// Done reports whether thread id has finished.
func (s *Scheduler) Done(id int) bool { return s.threads[id].done }

// Started reports whether thread id has begun to run.
func (s *Scheduler) Started(id int) bool { return s.threads[id].started }

// Panic returns the first panic raised by a thread body, if any.
func (s *Scheduler) Panic() (interface{}, string) {
	if s.panicVal == nil {
		return nil, ""
	}
	return s.panicVal, s.labels[len(s.labels)-1]
}

// Execute runs one execution: body registers the threads (thread 0 is
// started first); choices beyond prefix default to 0.
func Execute(prefix []int, horizon int, body func(s *Scheduler)) *Scheduler {
	s := &Scheduler{prefix: prefix, Horizon: horizon, finished: make(chan struct{})}
	body(s)
	if len(s.threads) == 0 {
		close(s.finished)
		return s
	}
	s.cur = 0
	s.threads[0].wake <- struct{}{}
	<-s.finished
	return s
}

// Choices returns the choice sequence of the execution.
func (s *Scheduler) Choices() []int {
	out := make([]int, len(s.Steps))
	for i, st := range s.Steps {
		out[i] = st.Chosen
	}
	return out
}

// UnfinishedIDs returns the ids of threads that never finished.
func (s *Scheduler) UnfinishedIDs() []int {
	var out []int
	for _, t := range s.threads {
		if !t.done {
			out = append(out, t.id)
		}
	}
	return out
}

// Unfinished lists threads that never finished (leaks at quiescence, or
// victims of deadlock/horizon).
func (s *Scheduler) Unfinished() []string {
	var out []string
	for _, t := range s.threads {
		if !t.done {
			out = append(out, fmt.Sprintf("%d(%s)", t.id, t.name))
		}
	}
	return out
}

// Stats of an exploration.
type Stats struct {
	Executions  int
	Points      int
	MaxPoints   int
	BoundHit    bool // some alternative was skipped because of the preemption bound
	CapHit      bool
	HorizonHits int
	Deadlocks   int
}

// Explore enumerates all executions of body with at most bound preemptions
// (bound < 0: unbounded), depth-first, calling check on every execution. check
// returns false to stop the exploration. maxExecs caps the number of executions.
func Explore(bound, horizon, maxExecs int, body func(s *Scheduler), check func(x *Scheduler) bool) Stats {
	var st Stats
	var rec func(prefix []int) bool
	rec = func(prefix []int) bool {
		if maxExecs > 0 && st.Executions >= maxExecs {
			st.CapHit = true
			return false
		}
		x := Execute(prefix, horizon, body)
		st.Executions++
		st.Points += len(x.Steps)
		if len(x.Steps) > st.MaxPoints {
			st.MaxPoints = len(x.Steps)
		}
		if x.HorizonHit {
			st.HorizonHits++
		}
		if x.Deadlock {
			st.Deadlocks++
		}
		if !check(x) {
			return false
		}
		if x.Diverged != "" {
			return false
		}
		// preemptions used before each point
		pre := 0
		costs := make([]int, len(x.Steps))
		for i, sp := range x.Steps {
			costs[i] = pre
			if sp.RunningEnabled && sp.Chosen != 0 {
				pre++
			}
		}
		for i := len(prefix); i < len(x.Steps); i++ {
			sp := x.Steps[i]
			for alt := 1; alt < len(sp.Enabled); alt++ {
				cost := costs[i]
				if sp.RunningEnabled {
					cost++
				}
				if bound >= 0 && cost > bound {
					st.BoundHit = true
					continue
				}
				np := make([]int, i+1)
				for j := 0; j < i; j++ {
					np[j] = x.Steps[j].Chosen
				}
				np[i] = alt
				if !rec(np) {
					return false
				}
			}
		}
		return true
	}
	rec(nil)
	return st
}

// RunLength returns how many scheduling points in a row the running thread
// has passed without any other thread being chosen.
func (s *Scheduler) RunLength() int {
	n := 0
	for i := len(s.Steps) - 1; i >= 0; i-- {
		st := s.Steps[i]
		if st.Running != s.cur || st.Enabled[st.Chosen] != s.cur {
			break
		}
		n++
	}
	return n
}
