// Package context is the stand-in for "context" used by the C13 source
// rewrite. All types are aliases of the real package, so signatures are
// unchanged; the constructors wrap the real ones and make cancel() a
// scheduling point and a release edge. Deadlines are not real timers under
// the scheduler: the harness owns the parent context and decides when it
// expires.
package context

import (
	rc "context"
	"time"

	"github.com/koron-go/z80/internal/verif/shim/rt"
)

// Aliases of the real types and values.
type (
	Context         = rc.Context
	CancelFunc      = rc.CancelFunc
	CancelCauseFunc = rc.CancelCauseFunc
)

// Errors of the real package.
var (
	Canceled         = rc.Canceled
	DeadlineExceeded = rc.DeadlineExceeded
)

// Background is context.Background.
func Background() Context { return rc.Background() }

// TODO is context.TODO.
func TODO() Context { return rc.TODO() }

// WithValue is context.WithValue.
func WithValue(parent Context, key, val interface{}) Context { return rc.WithValue(parent, key, val) }

// Cause is context.Cause.
func Cause(c Context) error { return rc.Cause(c) }

func wrap(ctx Context, cancel CancelFunc) (Context, CancelFunc) {
	return ctx, func() {
		rt.Point("cancel()")
		rt.ReleaseChan(ctx.Done())
		cancel()
	}
}

// WithCancel is context.WithCancel; the returned cancel is a scheduling point.
func WithCancel(parent Context) (Context, CancelFunc) {
	return wrap(rc.WithCancel(parent))
}

// WithCancelCause is context.WithCancelCause; the returned cancel is a scheduling point.
func WithCancelCause(parent Context) (Context, CancelCauseFunc) {
	ctx, cancel := rc.WithCancelCause(parent)
	return ctx, func(cause error) {
		rt.Point("cancel(cause)")
		rt.ReleaseChan(ctx.Done())
		cancel(cause)
	}
}

// WithDeadlineCause is context.WithDeadlineCause (see WithDeadline).
func WithDeadlineCause(parent Context, d time.Time, cause error) (Context, CancelFunc) {
	if rt.S != nil {
		return wrap(rc.WithCancel(parent))
	}
	return wrap(rc.WithDeadlineCause(parent, d, cause))
}

// WithTimeoutCause is context.WithTimeoutCause (see WithDeadline).
func WithTimeoutCause(parent Context, d time.Duration, cause error) (Context, CancelFunc) {
	if rt.S != nil {
		return wrap(rc.WithCancel(parent))
	}
	return wrap(rc.WithTimeoutCause(parent, d, cause))
}

// WithDeadline is context.WithDeadline. Under the scheduler no runtime timer
// is armed (the harness's parent context models expiry).
func WithDeadline(parent Context, d time.Time) (Context, CancelFunc) {
	if rt.S != nil {
		return wrap(rc.WithCancel(parent))
	}
	return wrap(rc.WithDeadline(parent, d))
}

// WithTimeout is context.WithTimeout (see WithDeadline).
func WithTimeout(parent Context, d time.Duration) (Context, CancelFunc) {
	if rt.S != nil {
		return wrap(rc.WithCancel(parent))
	}
	return wrap(rc.WithTimeout(parent, d))
}

// AfterFunc is context.AfterFunc. Under the scheduler the function runs on a scheduler thread that
// becomes enabled when ctx is done or stop is called (no real goroutine appears out of the scheduler's
// sight); stop reports whether it prevented f from running, like the real one.
func AfterFunc(ctx Context, f func()) (stop func() bool) {
	if rt.S == nil {
		return rc.AfterFunc(ctx, f)
	}
	started, stopped := false, false
	done := ctx.Done()
	rt.GoBlocked("context.AfterFunc", func() bool {
		if stopped {
			return true
		}
		select {
		case <-done:
			return true
		default:
			return false
		}
	}, func() {
		if stopped {
			return
		}
		started = true
		rt.AcquireGlobal()
		f()
	})
	return func() bool {
		rt.Point("AfterFunc stop()")
		if started || stopped {
			return false
		}
		stopped = true
		return true
	}
}

// WithoutCancel is context.WithoutCancel.
func WithoutCancel(parent Context) Context { return rc.WithoutCancel(parent) }
