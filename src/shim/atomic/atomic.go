// Package atomic is the scheduler-aware stand-in for sync/atomic used by the
// C13 source rewrite: every operation is a scheduling point and a
// release/acquire edge for the happens-before tracker. Without a scheduler it
// is a pass-through.
package atomic

import (
	ra "sync/atomic"
	"unsafe"

	"github.com/koron-go/z80/internal/verif/shim/rt"
)

func before(addr unsafe.Pointer, label string) {
	if rt.S != nil {
		rt.AtomicPoint(label)
	}
}

func sync(addr unsafe.Pointer, acquire, release bool) {
	if rt.S == nil {
		return
	}
	th := rt.S.Current()
	rt.HB.AtomicOp(th, uintptr(addr))
	if acquire {
		rt.HB.Acquire(th, uintptr(addr))
	}
	if release {
		rt.HB.Release(th, uintptr(addr))
	}
}

// LoadInt32 is atomic.LoadInt32.
func LoadInt32(p *int32) int32 {
	if rt.S != nil {
		rt.AtomicLoadPoint(uintptr(unsafe.Pointer(p)), int64(ra.LoadInt32(p)))
	}
	v := ra.LoadInt32(p)
	sync(unsafe.Pointer(p), true, false)
	return v
}

// StoreInt32 is atomic.StoreInt32.
func StoreInt32(p *int32, v int32) {
	before(unsafe.Pointer(p), "atomic store")
	sync(unsafe.Pointer(p), false, true)
	ra.StoreInt32(p, v)
}

// AddInt32 is atomic.AddInt32.
func AddInt32(p *int32, d int32) int32 {
	before(unsafe.Pointer(p), "atomic add")
	sync(unsafe.Pointer(p), true, true)
	return ra.AddInt32(p, d)
}

// SwapInt32 is atomic.SwapInt32.
func SwapInt32(p *int32, v int32) int32 {
	before(unsafe.Pointer(p), "atomic swap")
	sync(unsafe.Pointer(p), true, true)
	return ra.SwapInt32(p, v)
}

// CompareAndSwapInt32 is atomic.CompareAndSwapInt32.
func CompareAndSwapInt32(p *int32, o, n int32) bool {
	before(unsafe.Pointer(p), "atomic cas")
	sync(unsafe.Pointer(p), true, true)
	return ra.CompareAndSwapInt32(p, o, n)
}

// LoadUint32 is atomic.LoadUint32.
func LoadUint32(p *uint32) uint32 {
	if rt.S != nil {
		rt.AtomicLoadPoint(uintptr(unsafe.Pointer(p)), int64(ra.LoadUint32(p)))
	}
	v := ra.LoadUint32(p)
	sync(unsafe.Pointer(p), true, false)
	return v
}

// StoreUint32 is atomic.StoreUint32.
func StoreUint32(p *uint32, v uint32) {
	before(unsafe.Pointer(p), "atomic store")
	sync(unsafe.Pointer(p), false, true)
	ra.StoreUint32(p, v)
}

// AddUint32 is atomic.AddUint32.
func AddUint32(p *uint32, d uint32) uint32 {
	before(unsafe.Pointer(p), "atomic add")
	sync(unsafe.Pointer(p), true, true)
	return ra.AddUint32(p, d)
}

// CompareAndSwapUint32 is atomic.CompareAndSwapUint32.
func CompareAndSwapUint32(p *uint32, o, n uint32) bool {
	before(unsafe.Pointer(p), "atomic cas")
	sync(unsafe.Pointer(p), true, true)
	return ra.CompareAndSwapUint32(p, o, n)
}

// LoadInt64 is atomic.LoadInt64.
func LoadInt64(p *int64) int64 {
	if rt.S != nil {
		rt.AtomicLoadPoint(uintptr(unsafe.Pointer(p)), ra.LoadInt64(p))
	}
	v := ra.LoadInt64(p)
	sync(unsafe.Pointer(p), true, false)
	return v
}

// StoreInt64 is atomic.StoreInt64.
func StoreInt64(p *int64, v int64) {
	before(unsafe.Pointer(p), "atomic store")
	sync(unsafe.Pointer(p), false, true)
	ra.StoreInt64(p, v)
}

// AddInt64 is atomic.AddInt64.
func AddInt64(p *int64, d int64) int64 {
	before(unsafe.Pointer(p), "atomic add")
	sync(unsafe.Pointer(p), true, true)
	return ra.AddInt64(p, d)
}

// CompareAndSwapInt64 is atomic.CompareAndSwapInt64.
func CompareAndSwapInt64(p *int64, o, n int64) bool {
	before(unsafe.Pointer(p), "atomic cas")
	sync(unsafe.Pointer(p), true, true)
	return ra.CompareAndSwapInt64(p, o, n)
}

// Bool is atomic.Bool.
type Bool struct{ v int32 }

// Load is (*atomic.Bool).Load.
func (b *Bool) Load() bool { return LoadInt32(&b.v) != 0 }

// Store is (*atomic.Bool).Store.
func (b *Bool) Store(x bool) {
	var v int32
	if x {
		v = 1
	}
	StoreInt32(&b.v, v)
}

// Swap is (*atomic.Bool).Swap.
func (b *Bool) Swap(x bool) bool {
	var v int32
	if x {
		v = 1
	}
	return SwapInt32(&b.v, v) != 0
}

// CompareAndSwap is (*atomic.Bool).CompareAndSwap.
func (b *Bool) CompareAndSwap(o, n bool) bool {
	var ov, nv int32
	if o {
		ov = 1
	}
	if n {
		nv = 1
	}
	return CompareAndSwapInt32(&b.v, ov, nv)
}

// Int32 is atomic.Int32.
type Int32 struct{ v int32 }

// Load is (*atomic.Int32).Load.
func (i *Int32) Load() int32 { return LoadInt32(&i.v) }

// Store is (*atomic.Int32).Store.
func (i *Int32) Store(x int32) { StoreInt32(&i.v, x) }

// Add is (*atomic.Int32).Add.
func (i *Int32) Add(d int32) int32 { return AddInt32(&i.v, d) }

// CompareAndSwap is (*atomic.Int32).CompareAndSwap.
func (i *Int32) CompareAndSwap(o, n int32) bool { return CompareAndSwapInt32(&i.v, o, n) }

// Int64 is atomic.Int64.
type Int64 struct{ v int64 }

// Load is (*atomic.Int64).Load.
func (i *Int64) Load() int64 { return LoadInt64(&i.v) }

// Store is (*atomic.Int64).Store.
func (i *Int64) Store(x int64) { StoreInt64(&i.v, x) }

// Add is (*atomic.Int64).Add.
func (i *Int64) Add(d int64) int64 { return AddInt64(&i.v, d) }

// Uint32 is atomic.Uint32.
type Uint32 struct{ v uint32 }

// Load is (*atomic.Uint32).Load.
func (i *Uint32) Load() uint32 { return LoadUint32(&i.v) }

// Store is (*atomic.Uint32).Store.
func (i *Uint32) Store(x uint32) { StoreUint32(&i.v, x) }

// Add is (*atomic.Uint32).Add.
func (i *Uint32) Add(d uint32) uint32 { return AddUint32(&i.v, d) }

// Value is atomic.Value (pointer-sized payloads through an interface).
type Value struct {
	v    ra.Value
	mark int32
}

// Load is (*atomic.Value).Load.
func (v *Value) Load() interface{} {
	before(unsafe.Pointer(&v.mark), "atomic value load")
	x := v.v.Load()
	sync(unsafe.Pointer(&v.mark), true, false)
	return x
}

// Store is (*atomic.Value).Store.
func (v *Value) Store(x interface{}) {
	before(unsafe.Pointer(&v.mark), "atomic value store")
	sync(unsafe.Pointer(&v.mark), false, true)
	v.v.Store(x)
}
