package rt

import "fmt"

// Tracker is a vector-clock happens-before tracker for the variables the
// rewrite instruments (FastTrack-style, full vector clocks; thread counts are tiny).
type Tracker struct {
	vc     map[int][]int
	locks  map[uintptr][]int
	vars   map[uintptr]*varState
	atomic map[uintptr]bool
	Races  []string
}

type varState struct {
	wThread int
	wClock  int
	hasW    bool
	reads   map[int]int // thread -> clock of its last read
}

// NewTracker returns an empty tracker.
func NewTracker() *Tracker {
	return &Tracker{vc: map[int][]int{}, locks: map[uintptr][]int{}, vars: map[uintptr]*varState{}, atomic: map[uintptr]bool{}}
}

func (t *Tracker) clock(th int) []int {
	c := t.vc[th]
	for len(c) <= th {
		c = append(c, 0)
	}
	if c[th] == 0 {
		c[th] = 1
	}
	t.vc[th] = c
	return c
}

func join(a, b []int) []int {
	for len(a) < len(b) {
		a = append(a, 0)
	}
	for i, v := range b {
		if v > a[i] {
			a[i] = v
		}
	}
	return a
}

func get(c []int, i int) int {
	if i < len(c) {
		return c[i]
	}
	return 0
}

// Fork: everything the parent did so far happens before the child starts.
func (t *Tracker) Fork(parent, child int) {
	p := t.clock(parent)
	c := join(append([]int{}, t.clock(child)...), p)
	t.vc[child] = c
	t.clock(child)
	p[parent]++
}

// Release publishes the running thread's clock on sync object key.
func (t *Tracker) Release(th int, key uintptr) {
	c := t.clock(th)
	t.locks[key] = join(append([]int{}, t.locks[key]...), c)
	c[th]++
}

// Acquire joins the clock of sync object key into the thread's clock.
func (t *Tracker) Acquire(th int, key uintptr) {
	c := t.clock(th)
	t.vc[th] = join(c, t.locks[key])
}

// AtomicOp marks addr as accessed atomically (mixed plain access is a race).
func (t *Tracker) AtomicOp(th int, addr uintptr) {
	t.atomic[addr] = true
	if v := t.vars[addr]; v != nil {
		t.report(fmt.Sprintf("variable at %#x is accessed both atomically and with plain loads/stores", addr))
	}
}

func (t *Tracker) report(s string) {
	for _, r := range t.Races {
		if r == s {
			return
		}
	}
	t.Races = append(t.Races, s)
}

// Read records a plain read.
func (t *Tracker) Read(th int, addr uintptr) {
	c := t.clock(th)
	if t.atomic[addr] {
		t.report(fmt.Sprintf("variable at %#x is accessed both atomically and with a plain read by thread %d", addr, th))
	}
	v := t.vars[addr]
	if v == nil {
		v = &varState{reads: map[int]int{}}
		t.vars[addr] = v
	}
	if v.hasW && v.wThread != th && v.wClock > get(c, v.wThread) {
		t.report(fmt.Sprintf("data race: plain read by thread %d is not ordered after the plain write by thread %d", th, v.wThread))
	}
	v.reads[th] = c[th]
}

// Write records a plain write.
func (t *Tracker) Write(th int, addr uintptr) {
	c := t.clock(th)
	if t.atomic[addr] {
		t.report(fmt.Sprintf("variable at %#x is accessed both atomically and with a plain write by thread %d", addr, th))
	}
	v := t.vars[addr]
	if v == nil {
		v = &varState{reads: map[int]int{}}
		t.vars[addr] = v
	}
	if v.hasW && v.wThread != th && v.wClock > get(c, v.wThread) {
		t.report(fmt.Sprintf("data race: plain write by thread %d is not ordered after the plain write by thread %d", th, v.wThread))
	}
	for rt, rc := range v.reads {
		if rt != th && rc > get(c, rt) {
			t.report(fmt.Sprintf("data race: plain write by thread %d is not ordered after the plain read by thread %d", th, rt))
		}
	}
	v.hasW, v.wThread, v.wClock = true, th, c[th]
	v.reads = map[int]int{}
}
