// Package rt is the runtime behind the source rewrite that bin/check applies
// to package z80 for C13 (DESIGN §4.3). With no scheduler installed every
// function is a pass-through to the real Go construct, so the rewritten
// package behaves exactly like the original.
package rt

import (
	"fmt"
	"runtime"
	"unsafe"

	"github.com/koron-go/z80/internal/verif/sched"
)

// S is the scheduler of the current controlled execution (nil = pass-through).
var S *sched.Scheduler

// Virtual holds the ids of scheduler threads that model a registered callback which has not fired
// (context.AfterFunc): they are not goroutines and must not be reported as leaked.
var Virtual = map[int]bool{}

// HB is the happens-before tracker of the current execution.
var HB *Tracker

// Stats of the current execution, reset by Install.
var (
	Spawned  int // threads spawned by rewritten code
	NPoints  int
	Finished []bool
)

// Install starts a controlled execution.
func Install(s *sched.Scheduler) {
	S = s
	HB = NewTracker()
	Spawned = 0
	NPoints = 0
	loadHist = map[loadKey]int{}
	Virtual = map[int]bool{}
}

// Uninstall returns to pass-through mode.
func Uninstall() {
	S = nil
	HB = nil
}

// Go replaces a go statement.
func Go(f func()) {
	if S == nil {
		go f()
		return
	}
	parent := S.Current()
	Spawned++
	var child int
	child = S.Go(fmt.Sprintf("spawned#%d", Spawned), func() {
		f()
	})
	HB.Fork(parent, child)
	S.Point("after go")
}

// Point is a plain scheduling point.
func Point(label string) {
	if S != nil {
		NPoints++
		S.Point(label)
	}
}

// Recv replaces a blocking receive expression <-ch.
func Recv[T any](ch <-chan T) T {
	v, _ := Recv2(ch)
	return v
}

// Recv2 replaces v, ok := <-ch.
func Recv2[T any](ch <-chan T) (T, bool) {
	if S == nil {
		v, ok := <-ch
		return v, ok
	}
	var got T
	var gotOK, have bool
	NPoints++
	S.Block("recv", func() bool {
		if have {
			return true
		}
		select {
		case v, ok := <-ch:
			got, gotOK, have = v, ok, true
			return true
		default:
			return false
		}
	})
	if !have {
		// enabled by predicate evaluation in another call path
		v, ok := <-ch
		got, gotOK = v, ok
	}
	// close -> receive / send -> receive edge: approximated by the channel's clock
	HB.Acquire(S.Current(), chanKey(ch))
	HB.Acquire(S.Current(), GlobalChanKey)
	return got, gotOK
}

func chanKey[T any](ch <-chan T) uintptr {
	return uintptr(*(*unsafe.Pointer)(unsafe.Pointer(&ch)))
}

// GlobalChanKey is a sync object that every cancel()/close releases and every
// receive acquires: cancelling a parent context closes the Done channels of
// its children, which are different channel values. This over-approximates
// happens-before (never reports a false race).
const GlobalChanKey = 1

// ReleaseChan records a release on channel ch (close or send) by the running thread.
func ReleaseChan[T any](ch <-chan T) {
	if S != nil {
		HB.Release(S.Current(), chanKey(ch))
		HB.Release(S.Current(), GlobalChanKey)
	}
}

// ReleaseGlobal is ReleaseChan for harness threads that cancel a context they own.
func ReleaseGlobal() {
	if S != nil {
		HB.Release(S.Current(), GlobalChanKey)
	}
}

// R wraps a plain read of a variable shared with a spawned function literal.
func R[T any](p *T) *T {
	if S != nil {
		HB.Read(S.Current(), uintptr(unsafe.Pointer(p)))
	}
	return p
}

// W wraps a plain write of a variable shared with a spawned function literal.
func W[T any](p *T) *T {
	if S != nil {
		HB.Write(S.Current(), uintptr(unsafe.Pointer(p)))
	}
	return p
}

type loadKey struct {
	thread int
	addr   uintptr
	val    int64
}

var loadHist map[loadKey]int

// AtomicLoadPoint is called by the atomic shim before a load; it turns the
// third identical load by the same thread into a fair yield (a polling loop).
func AtomicLoadPoint(addr uintptr, val int64) {
	if S == nil {
		return
	}
	NPoints++
	k := loadKey{S.Current(), addr, val}
	loadHist[k]++
	if loadHist[k] > 2 {
		S.Yield("polling load")
	} else {
		S.Point("atomic load")
	}
}

// AtomicPoint is called by the atomic shim before any other atomic operation.
func AtomicPoint(label string) {
	if S != nil {
		NPoints++
		S.Point(label)
	}
}

// SelectPoint is placed in front of a non-blocking select (default clause, receive cases only).
// It is a scheduling point; a thread that passed 40 points in a row yields (a polling loop must
// not starve the threads it is waiting for). Acquiring the global channel clock over-approximates
// the close->receive edge of a case that fires.
func SelectPoint() {
	if S == nil {
		return
	}
	NPoints++
	HB.Acquire(S.Current(), GlobalChanKey)
	if S.RunLength() >= 40 {
		S.Yield("polling select (fairness)")
		return
	}
	S.Point("select")
}

// GoBlocked spawns a scheduler thread that first blocks until pred holds and then runs f.
func GoBlocked(name string, pred func() bool, f func()) {
	parent := S.Current()
	Spawned++
	var child int
	child = S.Go(fmt.Sprintf("%s#%d", name, Spawned), func() {
		NPoints++
		S.Block(name, pred)
		delete(Virtual, child)
		f()
	})
	// until it starts this thread stands for a registered callback, not for a goroutine
	Virtual[child] = true
	HB.Fork(parent, child)
	S.Point("after " + name)
}

// AcquireGlobal joins the global channel clock (see GlobalChanKey).
func AcquireGlobal() {
	if S != nil {
		HB.Acquire(S.Current(), GlobalChanKey)
	}
}

// Gosched replaces runtime.Gosched(): a fair yield (a thread that spins on Gosched waits for others).
func Gosched() {
	if S == nil {
		runtime.Gosched()
		return
	}
	NPoints++
	S.Yield("runtime.Gosched")
}
