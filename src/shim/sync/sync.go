// Package sync is the scheduler-aware stand-in for "sync" used by the C13 source rewrite: Mutex,
// RWMutex, WaitGroup and Once as blocking points of the cooperative scheduler with release/acquire
// edges for the happens-before tracker. Without a scheduler every type delegates to the real one.
package sync

import (
	rs "sync"
	"unsafe"

	"github.com/koron-go/z80/internal/verif/shim/rt"
)

// Locker is sync.Locker.
type Locker = rs.Locker

// Mutex is sync.Mutex.
type Mutex struct {
	real   rs.Mutex
	locked bool
}

func key(p unsafe.Pointer) uintptr { return uintptr(p) }

// Lock is (*sync.Mutex).Lock.
func (m *Mutex) Lock() {
	if rt.S == nil {
		m.real.Lock()
		return
	}
	rt.NPoints++
	rt.S.Block("Mutex.Lock", func() bool { return !m.locked })
	m.locked = true
	rt.HB.Acquire(rt.S.Current(), key(unsafe.Pointer(m)))
}

// TryLock is (*sync.Mutex).TryLock.
func (m *Mutex) TryLock() bool {
	if rt.S == nil {
		return m.real.TryLock()
	}
	rt.Point("Mutex.TryLock")
	if m.locked {
		return false
	}
	m.locked = true
	rt.HB.Acquire(rt.S.Current(), key(unsafe.Pointer(m)))
	return true
}

// Unlock is (*sync.Mutex).Unlock.
func (m *Mutex) Unlock() {
	if rt.S == nil {
		m.real.Unlock()
		return
	}
	if !m.locked {
		panic("sync: unlock of unlocked mutex")
	}
	rt.HB.Release(rt.S.Current(), key(unsafe.Pointer(m)))
	m.locked = false
	rt.Point("Mutex.Unlock")
}

// RWMutex is sync.RWMutex (readers and writers).
type RWMutex struct {
	real    rs.RWMutex
	writer  bool
	readers int
}

// Lock is (*sync.RWMutex).Lock.
func (m *RWMutex) Lock() {
	if rt.S == nil {
		m.real.Lock()
		return
	}
	rt.NPoints++
	rt.S.Block("RWMutex.Lock", func() bool { return !m.writer && m.readers == 0 })
	m.writer = true
	rt.HB.Acquire(rt.S.Current(), key(unsafe.Pointer(m)))
}

// Unlock is (*sync.RWMutex).Unlock.
func (m *RWMutex) Unlock() {
	if rt.S == nil {
		m.real.Unlock()
		return
	}
	rt.HB.Release(rt.S.Current(), key(unsafe.Pointer(m)))
	m.writer = false
	rt.Point("RWMutex.Unlock")
}

// RLock is (*sync.RWMutex).RLock.
func (m *RWMutex) RLock() {
	if rt.S == nil {
		m.real.RLock()
		return
	}
	rt.NPoints++
	rt.S.Block("RWMutex.RLock", func() bool { return !m.writer })
	m.readers++
	rt.HB.Acquire(rt.S.Current(), key(unsafe.Pointer(m)))
}

// RUnlock is (*sync.RWMutex).RUnlock.
func (m *RWMutex) RUnlock() {
	if rt.S == nil {
		m.real.RUnlock()
		return
	}
	rt.HB.Release(rt.S.Current(), key(unsafe.Pointer(m)))
	m.readers--
	rt.Point("RWMutex.RUnlock")
}

// WaitGroup is sync.WaitGroup.
type WaitGroup struct {
	real rs.WaitGroup
	n    int
}

// Add is (*sync.WaitGroup).Add.
func (w *WaitGroup) Add(d int) {
	if rt.S == nil {
		w.real.Add(d)
		return
	}
	rt.HB.Release(rt.S.Current(), key(unsafe.Pointer(w)))
	w.n += d
	if w.n < 0 {
		panic("sync: negative WaitGroup counter")
	}
	rt.Point("WaitGroup.Add")
}

// Done is (*sync.WaitGroup).Done.
func (w *WaitGroup) Done() { w.Add(-1) }

// Wait is (*sync.WaitGroup).Wait.
func (w *WaitGroup) Wait() {
	if rt.S == nil {
		w.real.Wait()
		return
	}
	rt.NPoints++
	rt.S.Block("WaitGroup.Wait", func() bool { return w.n == 0 })
	rt.HB.Acquire(rt.S.Current(), key(unsafe.Pointer(w)))
}

// Once is sync.Once.
type Once struct {
	real    rs.Once
	done    bool
	running bool
}

// Do is (*sync.Once).Do.
func (o *Once) Do(f func()) {
	if rt.S == nil {
		o.real.Do(f)
		return
	}
	rt.NPoints++
	rt.S.Block("Once.Do", func() bool { return !o.running })
	if o.done {
		rt.HB.Acquire(rt.S.Current(), key(unsafe.Pointer(o)))
		return
	}
	o.running = true
	defer func() {
		o.done, o.running = true, false
		rt.HB.Release(rt.S.Current(), key(unsafe.Pointer(o)))
	}()
	f()
}
