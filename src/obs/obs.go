// Package obs holds the recording memory and port devices that every check
// hands to the CPU under test and to the reference model. All bytes the
// emulator reads or writes go through these objects, so observation needs no
// source hooks.
package obs

// Access is one logged memory or port access.
type Access struct {
	Addr uint16
	Val  uint8
}

// Background returns the deterministic background byte of an address: all
// neighbours distinct, no 0x00/0xFF plateaus. salt is the only seed-dependent
// datum of the framework (don't-care values).
func Background(addr uint16, salt uint32) uint8 {
	x := uint32(addr)*2654435761 + salt*40503 + 0x9e3779b9
	x ^= x >> 15
	x *= 2246822519
	x ^= x >> 13
	return uint8(x>>8) ^ uint8(addr) ^ uint8(addr>>8)*7
}

// Mem is a journaled 64 KiB memory. Reset cost is O(dirty addresses).
type Mem struct {
	bg     *[65536]uint8
	mem    [65536]uint8
	dirty  []uint16
	isDirt [65536 / 8]uint8
	Reads  []Access
	Writes []Access
	// Hook, if non-nil, is called before every Get/Set (scheduling point,
	// interrupt injection, watchdog).
	Hook func(write bool, addr uint16)
	// Limit > 0: panic(Watchdog) after that many accesses since Reset/ClearLog.
	Limit int
	n     int
}

// Watchdog is the sentinel panic value of the deterministic watchdog.
type Watchdog struct{ Accesses int }

var bgCache = map[uint32]*[65536]uint8{}

// NewBackground builds (uncached) the background image for salt.
func NewBackground(salt uint32) *[65536]uint8 {
	b := new([65536]uint8)
	for i := 0; i < 65536; i++ {
		b[i] = Background(uint16(i), salt)
	}
	return b
}

// NewMem returns a memory whose every byte is the background of salt.
func NewMem(bg *[65536]uint8) *Mem {
	m := &Mem{bg: bg}
	m.mem = *bg
	return m
}

// NewZeroMem returns a memory filled with fill.
func NewFilledMem(fill uint8) *Mem {
	b := new([65536]uint8)
	for i := range b {
		b[i] = fill
	}
	return NewMem(b)
}

func (m *Mem) mark(addr uint16) {
	if m.isDirt[addr>>3]&(1<<(addr&7)) == 0 {
		m.isDirt[addr>>3] |= 1 << (addr & 7)
		m.dirty = append(m.dirty, addr)
	}
}

// Get implements z80.Memory.
func (m *Mem) Get(addr uint16) uint8 {
	if m.Hook != nil {
		m.Hook(false, addr)
	}
	if m.Limit > 0 {
		m.n++
		if m.n > m.Limit {
			panic(Watchdog{m.n})
		}
	}
	v := m.mem[addr]
	m.Reads = append(m.Reads, Access{addr, v})
	return v
}

// Set implements z80.Memory.
func (m *Mem) Set(addr uint16, v uint8) {
	if m.Hook != nil {
		m.Hook(true, addr)
	}
	if m.Limit > 0 {
		m.n++
		if m.n > m.Limit {
			panic(Watchdog{m.n})
		}
	}
	m.mark(addr)
	m.mem[addr] = v
	m.Writes = append(m.Writes, Access{addr, v})
}

// Poke stores without logging (test set-up).
func (m *Mem) Poke(addr uint16, v ...uint8) {
	for _, b := range v {
		m.mark(addr)
		m.mem[addr] = b
		addr++
	}
}

// Peek reads without logging.
func (m *Mem) Peek(addr uint16) uint8 { return m.mem[addr] }

// Peek16 reads a little-endian word without logging.
func (m *Mem) Peek16(addr uint16) uint16 {
	return uint16(m.mem[addr]) | uint16(m.mem[addr+1])<<8
}

// ClearLog forgets the access logs but keeps the contents.
func (m *Mem) ClearLog() {
	m.Reads = m.Reads[:0]
	m.Writes = m.Writes[:0]
	m.n = 0
}

// Reset restores the background everywhere and clears the logs.
func (m *Mem) Reset() {
	for _, a := range m.dirty {
		m.mem[a] = m.bg[a]
		m.isDirt[a>>3] = 0
	}
	m.dirty = m.dirty[:0]
	m.ClearLog()
}

// Dirty returns the addresses poked or written since the last Reset.
func (m *Mem) Dirty() []uint16 { return m.dirty }

// Image returns a copy of the whole 64 KiB.
func (m *Mem) Image() *[65536]uint8 {
	c := m.mem
	return &c
}

// CopyFrom makes m an exact copy of o's contents (logs cleared).
func (m *Mem) CopyFrom(o *Mem) {
	m.Reset()
	m.bg = o.bg
	m.mem = o.mem
	m.dirty = append(m.dirty[:0], o.dirty...)
	m.isDirt = o.isDirt
}

// EqualContents reports whether both memories hold the same 64 KiB, and if
// not the first differing address.
func (m *Mem) EqualContents(o *Mem) (bool, uint16) {
	if m.bg == o.bg {
		// only dirty addresses of either can differ
		for _, a := range m.dirty {
			if m.mem[a] != o.mem[a] {
				return false, a
			}
		}
		for _, a := range o.dirty {
			if m.mem[a] != o.mem[a] {
				return false, a
			}
		}
		return true, 0
	}
	for i := 0; i < 65536; i++ {
		if m.mem[i] != o.mem[i] {
			return false, uint16(i)
		}
	}
	return true, 0
}

// PortAccess is one logged port access.
type PortAccess struct {
	Out  bool
	Port uint8
	Val  uint8
}

// IO is a recording port device. In(port) returns Script(port, k) where k is
// the number of earlier In calls since the last Reset.
type IO struct {
	Log []PortAccess
	// X and Y define the returned byte: In(p) = X ^ p*Y-ish hash; a wrong
	// port number is therefore visible in the loaded value as well as in the log.
	X, Y  uint8
	Fixed bool // if set, In always returns X
	// Absent models "no device attached": In answers 0, nothing is logged
	Absent bool
	nIn    int
	Hook   func(out bool, port uint8)
}

// InValue is the byte the device answers for the k-th read, from port p.
func (d *IO) InValue(p uint8, k int) uint8 {
	if d.Fixed {
		return d.X
	}
	return d.X ^ (p*167 + 13) ^ uint8(k)*d.Y
}

// In implements z80.IO.
func (d *IO) In(p uint8) uint8 {
	if d.Absent {
		return 0
	}
	if d.Hook != nil {
		d.Hook(false, p)
	}
	v := d.InValue(p, d.nIn)
	d.nIn++
	d.Log = append(d.Log, PortAccess{false, p, v})
	return v
}

// Out implements z80.IO.
func (d *IO) Out(p uint8, v uint8) {
	if d.Absent {
		return
	}
	if d.Hook != nil {
		d.Hook(true, p)
	}
	d.Log = append(d.Log, PortAccess{true, p, v})
}

// Reset clears the log and the read counter.
func (d *IO) Reset() {
	d.Log = d.Log[:0]
	d.nIn = 0
}

// SameMultiset reports whether a and b hold the same accesses regardless of order.
func SameMultiset(a, b []Access) bool {
	if len(a) != len(b) {
		return false
	}
	if len(a) > 64 {
		return sameMultisetBig(a, b)
	}
	var used uint64
outer:
	for _, x := range a {
		for j, y := range b {
			if used&(1<<uint(j)) == 0 && x == y {
				used |= 1 << uint(j)
				continue outer
			}
		}
		return false
	}
	return true
}

func sameMultisetBig(a, b []Access) bool {
	m := map[Access]int{}
	for _, x := range a {
		m[x]++
	}
	for _, y := range b {
		m[y]--
		if m[y] < 0 {
			return false
		}
	}
	return true
}

// SamePorts compares two port logs in order.
func SamePorts(a, b []PortAccess) bool {
	if len(a) != len(b) {
		return false
	}
	for i := range a {
		if a[i] != b[i] {
			return false
		}
	}
	return true
}
