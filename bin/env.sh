# sourced by bin/check, bin/setup, bin/selftest
export GOFLAGS=-mod=mod GOPROXY=off GOSUMDB=off GOTOOLCHAIN=local
export CARGO_NET_OFFLINE=true PIP_NO_INDEX=1
VERIF=${VERIF:-$(cd "$(dirname "${BASH_SOURCE[0]}")/.." && pwd)}
export VERIF
export VERIF_REPO=${VERIF_REPO:-/repo}
BUILD=$VERIF/build
mkdir -p "$BUILD/bin" "$BUILD/tmp"

# gen_overlay <out.json> [extra "virtual=real" pairs...]
# Mounts every /verif/src/<pkg>/<f>.go at $VERIF_REPO/internal/verif/<pkg>/<f>.go
gen_overlay() {
  local out=$1; shift
  {
    printf '{"Replace":{\n'
    local first=1
    while IFS= read -r f; do
      rel=${f#"$VERIF/src/"}
      [ $first = 1 ] || printf ',\n'
      first=0
      printf '  "%s/internal/verif/%s":"%s"' "$VERIF_REPO" "$rel" "$f"
    done < <(find "$VERIF/src" -name '*.go' | sort)
    for kv in "$@"; do
      printf ',\n  "%s":"%s"' "${kv%%=*}" "${kv#*=}"
    done
    printf '\n}}\n'
  } > "$out"
}

# build_vz80 <out-binary> [go build flags...]   (uses $OVERLAY)
build_vz80() {
  local out=$1; shift
  (cd "$VERIF_REPO" && go build -overlay "$OVERLAY" "$@" -o "$out" ./internal/verif/cmd/vz80)
}
