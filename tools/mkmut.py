#!/usr/bin/env python3
# usage: mkmut.py <name> <file> <old> <new> [<file> <old> <new> ...]  -> writes /verif/mutants/<name>.diff (unified diff vs /repo)
import sys, difflib, os
name=sys.argv[1]; args=sys.argv[2:]
out=[]
for i in range(0,len(args),3):
    f,old,new=args[i:i+3]
    src=open('/repo/'+f).read()
    if src.count(old)!=1:
        print("pattern occurs",src.count(old),"times in",f); sys.exit(1)
    dst=src.replace(old,new)
    out+=list(difflib.unified_diff(src.splitlines(True),dst.splitlines(True),'a/'+f,'b/'+f))
open('/verif/mutants/%s.diff'%name,'w').write(''.join(out))
print("written",name)
