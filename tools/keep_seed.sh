#!/bin/bash
# usage: tools/keep_seed.sh <PROP> <i> [extra check ids]  — confirm a sub-agent's seeded change in my own scratch worktree
# and, if confirmed, store it as /verif/seeded/<PROP>-<i>/ with the verdict of my checks.
set -u
P=$1; I=$2; EXTRA=${3:-}
ROUND=${ROUND:-1}
if [ "$ROUND" = 1 ]; then SEEDROOT=/tmp/seed-$P; TAG=$P-$I; else SEEDROOT=/tmp/seed$ROUND-$P; TAG=$P-r$ROUND-$I; fi
SRC=$SEEDROOT/SEED/$I
. /verif/bin/env.sh
[ -f "$SRC/patch.diff" ] || { echo "no patch in $SRC"; exit 2; }
W=$(mktemp -d /tmp/vz80-confirm.XXXXXX); rmdir "$W"
git -C /repo worktree add --detach "$W" HEAD -f > /dev/null 2>&1 || exit 2
cleanup() { git -C /repo worktree remove --force "$W" > /dev/null 2>&1; rm -rf "$W"; }
trap cleanup EXIT
loc=$(python3 -c "import json;m=json.load(open('$SRC/meta.json'));print(m.get('demo_location',''))" 2>/dev/null)
demo=$(ls "$SRC"/demo_test.go "$SRC"/demo.sh 2>/dev/null | head -1)
# where does the demo go? default: package root
dest="$W/zz_demo_test.go"; pkg="."
case "$loc" in *internal/tinycpm*) dest="$W/internal/tinycpm/zz_demo_test.go"; pkg=./internal/tinycpm;; *internal/zex*) dest="$W/internal/zex/zz_demo_test.go"; pkg=./internal/zex;; *cmd/cim2bin*) dest="$W/cmd/cim2bin/zz_demo_test.go"; pkg=./cmd/cim2bin;; *cmd/cim2cas*) dest="$W/cmd/cim2cas/zz_demo_test.go"; pkg=./cmd/cim2cas;; *cmd/convert_case*) dest="$W/cmd/convert_case/zz_demo_test.go"; pkg=./cmd/convert_case;; *cmd/zexdoc/zz_demo*) dest="$W/cmd/zexdoc/zz_demo_test.go"; pkg=./cmd/zexdoc;; esac
rundemo() { if [[ "$demo" == *.sh ]]; then mkdir -p "$W/SEED/$I"; echo "module seed" > "$W/SEED/go.mod"; sed "s#$SEEDROOT#$W#g" "$demo" > "$W/SEED/$I/demo.sh"; (cd "$W" && bash "$W/SEED/$I/demo.sh" > "$W/.demo.log" 2>&1); r=$?; rm -rf "$W/SEED"; return $r; else cp "$demo" "$dest"; (cd "$W" && env ${DEMOENV:-} go test -vet=off ${DEMOFLAGS:-} -run TestSeedDemo -count=1 $pkg > "$W/.demo.log" 2>&1); r=$?; rm -f "$dest"; return $r; fi; }
rundemo; clean_demo=$?
(cd "$W" && git apply "$SRC/patch.diff") || { echo "patch does not apply"; exit 3; }
(cd "$W" && go build ./... && go test -vet=off -count=1 ./... > "$W/.suite.log" 2>&1); suite=$?
rundemo; mut_demo=$?
echo "clean demo exit=$clean_demo (want 0); suite with change exit=$suite (want 0); demo with change exit=$mut_demo (want !=0)"
if [ $clean_demo -ne 0 ] || [ $suite -ne 0 ] || [ $mut_demo -eq 0 ]; then echo "NOT CONFIRMED"; tail -5 "$W/.suite.log" "$W/.demo.log" 2>/dev/null; exit 4; fi
ids=$P${EXTRA:+,$EXTRA}
res=$(/verif/bin/mutant "$SRC/patch.diff" "$ids" quick 2>&1)
echo "$res" | grep -E "^== |VIOLATION" | head -8
D=/verif/seeded/$TAG; mkdir -p "$D"
cp "$SRC/patch.diff" "$D/patch.diff"; cp "$demo" "$D/"; 
python3 - "$SRC/meta.json" "$D/meta.json" "$ids" <<PY
import json,sys,re
m=json.load(open(sys.argv[1]))
res='''$res'''
det={}
for mm in re.finditer(r'== (C\d+) exit (\d+)',res): det[mm.group(1)]=('VIOLATION reported' if mm.group(2)=='1' else 'not reported (exit %s)'%mm.group(2))
m['confirmed_by_verif_owner']={'clean_tree_demo_passes':True,'suite_passes_with_change':True,'demo_fails_with_change':True,
  'ran':['git worktree add (scratch under /tmp)','demo on clean tree','git apply patch.diff','go build ./... && go test -vet=off -count=1 ./...','demo on patched tree','bin/mutant patch.diff %s quick'%sys.argv[3]],
  'checks_quick':det}
json.dump(m,open(sys.argv[2],'w'),indent=1)
PY
echo "kept as $D"
