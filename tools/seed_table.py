#!/usr/bin/env python3
# Regenerates the seeded-changes table of DESIGN.md §11.5 from /verif/seeded/*/meta.json
import json,glob,os,re
rows=[]
for d in sorted(glob.glob('/verif/seeded/*/')):
    try: m=json.load(open(d+'meta.json'))
    except Exception: continue
    sid=os.path.basename(d.rstrip('/'))
    c=m.get('confirmed_by_verif_owner',{}).get('checks_quick',{})
    verdict='; '.join('%s: %s'%(k,'caught' if 'VIOLATION' in v else 'not reported') for k,v in sorted(c.items()))
    note=m.get('verif_note','')
    summ=re.sub(r'\s+',' ',m.get('summary',''))[:160]
    rows.append('| %s | %s | %s | %s |'%(sid,summ,verdict,note))
tab='<!-- seeded-table-begin -->\n| Id | Change (author\'s summary, abridged) | Quick checks run against it | Note |\n|---|---|---|---|\n'+'\n'.join(rows)+'\n<!-- seeded-table-end -->'
p='/verif/DESIGN.md'; s=open(p).read()
if 'SEEDED_TABLE_PLACEHOLDER' in s: s=s.replace('SEEDED_TABLE_PLACEHOLDER',tab)
else: s=re.sub(r'<!-- seeded-table-begin -->.*?<!-- seeded-table-end -->',lambda _:tab,s,flags=re.S)
open(p,'w').write(s)
print(len(rows),"rows")
