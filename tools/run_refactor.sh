#!/bin/bash
# usage: tools/run_refactor.sh <patch.diff> [ids...]  — false-alarm test: applies a (supposedly) behaviour-preserving
# patch to a scratch copy of /repo, runs the repository's tests and then every quick check against the copy.
set -u
PATCH=$(readlink -f "$1"); shift
IDS=${*:-C01 C02 C03 C04 C05 C06 C07 C08 C09 C10 C11 C12 C13 C14 C15 C16 C17 C18 C19}
. /verif/bin/env.sh
SCR=$(mktemp -d /tmp/vz80-refac.XXXXXX); trap 'rm -rf "$SCR"' EXIT
rsync -a --exclude .git /repo/ "$SCR/repo/"
(cd "$SCR/repo" && git apply "$PATCH") || { echo "patch does not apply"; exit 3; }
if (cd "$SCR/repo" && go build ./... && go vet . && go test -vet=off -count=1 ./... > "$SCR/test.log" 2>&1); then echo "repo tests: PASS"; else echo "repo tests: FAIL"; tail -5 "$SCR/test.log"; fi
for ID in $IDS; do
  out=$(VERIF_REPO="$SCR/repo" VERIF_EVIDENCE_DIR="$SCR/evidence" timeout 1200 "$VERIF/bin/check" "$ID" quick 2>&1); r=$?
  if [ $r -ne 0 ]; then
    echo "== $ID exit $r  <<<<<<<<"
    echo "$out" | grep -E "^  \[|framework|build failed|KNOWN" | head -8 | cut -c1-400
    mkdir -p /verif/build/refac-alarms; cp -r "$SCR/evidence/replays" "/verif/build/refac-alarms/$(basename "$PATCH" .diff)-$ID" 2>/dev/null
  else
    echo "== $ID ok $(echo "$out" | grep -o 'exhaustive=[a-z]*')"
  fi
done
