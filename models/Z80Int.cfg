CONSTANT MaxNest = 3
SPECIFICATION Spec
INVARIANT TypeOK
INVARIANT AcceptClears
INVARIANT NotifyExact
INVARIANT NoSkip
INVARIANT NMIAlways
INVARIANT MaskRespected
INVARIANT DepthOK
CHECK_DEADLOCK FALSE
