------------------------------- MODULE Z80Int -------------------------------
(* Control model of Z80 interrupt handling as koron-go/z80 exposes it through  *)
(* CPU.Step / CPU.Interrupt (property C06).  Only control state is modelled;   *)
(* data (PC, SP, I, vector, stack bytes) is enumerated by the replay driver.   *)
(* Every state and every edge of the graph TLC generates from this module is   *)
(* replayed on the real CPU by `vz80 check C06` (see DESIGN.md 4.4).           *)
EXTENDS Naturals, Sequences

CONSTANT MaxNest          \* bound on the handler nesting depth

Instr == {"NOP", "EI", "DI", "HALT", "RETN", "RETI", "IM0", "IM1", "IM2", "LDAI"}

VARIABLES
  iff1, iff2,   \* interrupt enable flip-flops
  im,           \* interrupt mode 0..2
  pend,         \* the single request slot: "none", "nmi", "int"
  eiLast,       \* the previous Step executed EI (silicon delays acceptance by one instruction)
  depth,        \* handlers entered and not yet left (= return frames on the stack)
  nN, nI,       \* RETN / RETI handler notifications delivered by the last Step
  last          \* history variable: the action that produced this state

vars == <<iff1, iff2, im, pend, eiLast, depth, nN, nI, last>>

TypeOK ==
  /\ iff1 \in BOOLEAN /\ iff2 \in BOOLEAN /\ eiLast \in BOOLEAN
  /\ im \in 0..2
  /\ pend \in {"none", "nmi", "int"}
  /\ depth \in 0..MaxNest
  /\ nN \in 0..1 /\ nI \in 0..1
  /\ last \in {"Init", "RaiseNMI", "RaiseINT", "AcceptNMI", "AcceptINT"} \cup {"Exec_" \o i : i \in Instr}

Init ==
  /\ iff1 = FALSE /\ iff2 = FALSE /\ im = 0 /\ pend = "none" /\ eiLast = FALSE
  /\ depth = 0 /\ nN = 0 /\ nI = 0 /\ last = "Init"

\* The driver raises a request only into an empty slot and only if the
\* handler it may lead to still fits the nesting bound.
CanRaise == pend = "none" /\ depth < MaxNest

RaiseNMI ==
  /\ CanRaise
  /\ pend' = "nmi" /\ last' = "RaiseNMI"
  /\ nN' = 0 /\ nI' = 0
  /\ UNCHANGED <<iff1, iff2, im, eiLast, depth>>

RaiseINT ==
  /\ CanRaise
  /\ pend' = "int" /\ last' = "RaiseINT"
  /\ nN' = 0 /\ nI' = 0
  /\ UNCHANGED <<iff1, iff2, im, eiLast, depth>>

\* A non-maskable request is always accepted at the start of the next Step.
AcceptNMI ==
  /\ pend = "nmi"
  /\ iff2' = iff1 /\ iff1' = FALSE
  /\ pend' = "none" /\ depth' = depth + 1 /\ eiLast' = FALSE
  /\ nN' = 0 /\ nI' = 0 /\ last' = "AcceptNMI"
  /\ UNCHANGED im

\* A maskable request is accepted iff IFF1 is set; both flip-flops are cleared.
AcceptINT ==
  /\ pend = "int" /\ iff1
  /\ iff1' = FALSE /\ iff2' = FALSE
  /\ pend' = "none" /\ depth' = depth + 1 /\ eiLast' = FALSE
  /\ nN' = 0 /\ nI' = 0 /\ last' = "AcceptINT"
  /\ UNCHANGED im

\* Acceptance is mandatory except directly after EI, where this project
\* accepts at once and silicon one instruction later: both are allowed.
MustAccept == pend = "nmi" \/ (pend = "int" /\ iff1 /\ ~eiLast)

Exec(i) ==
  /\ ~MustAccept
  /\ i \in {"RETN", "RETI"} => depth > 0
  /\ last' = "Exec_" \o i
  /\ eiLast' = (i = "EI")
  /\ pend' = pend                      \* a refused request stays pending
  /\ nN' = IF i = "RETN" THEN 1 ELSE 0
  /\ nI' = IF i = "RETI" THEN 1 ELSE 0
  /\ depth' = IF i \in {"RETN", "RETI"} THEN depth - 1 ELSE depth
  /\ im' = CASE i = "IM0" -> 0 [] i = "IM1" -> 1 [] i = "IM2" -> 2 [] OTHER -> im
  /\ CASE i = "EI"   -> iff1' = TRUE  /\ iff2' = TRUE
       [] i = "DI"   -> iff1' = FALSE /\ iff2' = FALSE
       [] i = "RETN" -> iff1' = iff2  /\ iff2' = iff2
       [] i = "RETI" -> iff1' \in {iff1, iff2} /\ iff2' = iff2   \* manual vs silicon
       [] OTHER      -> iff1' = iff1  /\ iff2' = iff2

Next == RaiseNMI \/ RaiseINT \/ AcceptNMI \/ AcceptINT \/ \E i \in Instr : Exec(i)

Spec == Init /\ [][Next]_vars

-----------------------------------------------------------------------------
\* Invariants of the model itself (checked by TLC)

\* A maskable acceptance leaves both flip-flops clear; an NMI acceptance clears IFF1.
AcceptClears ==
  /\ last = "AcceptINT" => (~iff1 /\ ~iff2)
  /\ last = "AcceptNMI" => ~iff1

\* Exactly one notification on RETN/RETI edges and none on any other.
NotifyExact ==
  /\ (last = "Exec_RETN") <=> (nN = 1)
  /\ (last = "Exec_RETI") <=> (nI = 1)

\* A pending NMI is never passed over; a pending enabled maskable request is
\* passed over only directly after EI.
NoSkip ==
  /\ pend = "nmi" => ~(\E i \in Instr : ENABLED Exec(i))
  /\ (pend = "int" /\ iff1 /\ ~eiLast) => ~(\E i \in Instr : ENABLED Exec(i))

\* An NMI is always acceptable.
NMIAlways == pend = "nmi" => ENABLED AcceptNMI

\* A maskable request is never accepted while IFF1 is clear.
MaskRespected == (pend = "int" /\ ~iff1) => ~ENABLED AcceptINT

\* After an acceptance the nesting depth is positive.
DepthOK == (last \in {"AcceptNMI", "AcceptINT"}) => depth > 0
=============================================================================
